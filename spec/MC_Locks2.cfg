SPECIFICATION Spec
CONSTANT K = 2
INVARIANT ReleasedAtEnd
PROPERTY Terminates
