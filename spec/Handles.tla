------------------------------- MODULE Handles -------------------------------
(***************************************************************************)
(* Two handles over one set of database files (C10).  The disk is the log  *)
(* of committed transactions plus the node table; a handle keeps what it   *)
(* read at open time (its next internal id and the log length it has seen) *)
(* in memory, exactly as GraphEngine does, and never looks at the disk     *)
(* again.  Commit(h) appends a transaction that creates one node with the  *)
(* handle's own next internal id.  Refuse says whether a second open is    *)
(* refused while another handle is open (the property) or not (what the    *)
(* code does: it takes no file lock).                                      *)
(* Property: internal ids on disk stay unique and every acknowledged commit *)
(* is found by the next open - TLC shows both fail without the refusal.    *)
(***************************************************************************)
EXTENDS Naturals, Sequences, FiniteSets, TLC

CONSTANTS Handle, Refuse, MaxCommits

VARIABLES log,      \* disk: sequence of [h, id] node creations, in commit order
          isOpen,   \* handle -> BOOLEAN
          nextId,   \* handle -> next internal id it will hand out
          acked     \* set of <<h, id>> acknowledged to a caller
vars == <<log, isOpen, nextId, acked>>

Init == log = <<>> /\ isOpen = [h \in Handle |-> FALSE] /\ nextId = [h \in Handle |-> 0] /\ acked = {}

Open(h) ==
  /\ ~isOpen[h]
  /\ (Refuse => \A g \in Handle : ~isOpen[g])
  /\ isOpen' = [isOpen EXCEPT ![h] = TRUE]
  /\ nextId' = [nextId EXCEPT ![h] = Len(log)]          \* recovery: dense ids up to what the files hold
  /\ UNCHANGED <<log, acked>>

Commit(h) ==
  /\ isOpen[h] /\ Len(log) < MaxCommits
  /\ log' = Append(log, [h |-> h, id |-> nextId[h]])
  /\ nextId' = [nextId EXCEPT ![h] = @ + 1]
  /\ acked' = acked \cup {<<h, nextId[h]>>}
  /\ UNCHANGED isOpen

Close(h) == isOpen[h] /\ isOpen' = [isOpen EXCEPT ![h] = FALSE] /\ UNCHANGED <<log, nextId, acked>>

Next == \E h \in Handle : Open(h) \/ Commit(h) \/ Close(h)
Spec == Init /\ [][Next]_vars

AtMostOneWriter == Cardinality({h \in Handle : isOpen[h]}) <= 1
UniqueIds == \A i, j \in 1..Len(log) : i # j => log[i].id # log[j].id
(* recovery rejects a log whose ids are not dense: an acknowledged commit is then unreadable *)
DenseIds == \A i \in 1..Len(log) : log[i].id = i - 1
=============================================================================
