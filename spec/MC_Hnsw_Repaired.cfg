SPECIFICATION Spec
CONSTANTS Ids = {0, 1, 2, 3}
 Choices <- Line4
 M = 2
 EfC = 10
 EfS = 10
 MaxLevel = 1
 MaxOps = 6
 Queries <- QLine
 K = 3
 Reinsert = TRUE
 SkipSelf = TRUE
 KeepOld = TRUE
INVARIANT Sound
INVARIANT ExactWhenSmall
CHECK_DEADLOCK FALSE
