SPECIFICATION Spec
CONSTANTS Handle = {"h1", "h2"}
  Refuse = FALSE
  MaxCommits = 4
INVARIANT UniqueIds
INVARIANT DenseIds
