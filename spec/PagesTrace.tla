----------------------------- MODULE PagesTrace -----------------------------
(***************************************************************************)
(* Trace specification for growth histories (C18), recorded by `nvx pages`.*)
(*                                                                         *)
(* step: one operation (a transaction creating n nodes, relationships,     *)
(*   large property values, vectors; index creation; compaction;           *)
(*   checkpoint; reopen) together with the pager events it caused, each    *)
(*   <<op, page, calling module>> from the page-ownership hook.            *)
(*   Monitor state owner[page] follows Pages.tla: alloc / ensure-new give  *)
(*   a page to the calling module, free takes it away; a write,            *)
(*   ensure-present or free by a module that does not own the page is the  *)
(*   property's violation ("writing one structure changes another").       *)
(* obs: what the read interfaces return afterwards; the expected content   *)
(*   is computed here from the echoed step parameters.                     *)
(***************************************************************************)
EXTENDS Json, IOUtils, TLC, Integers, Sequences, SequencesExt, FiniteSets, FiniteSetsExt, Functions

Rec == ndJsonDeserialize(IOEnv.TRACE)
VARIABLES l, owner, nodes, blobs, edges, foreign, vac
(* owner  : function page -> module, defined on pages in use
   nodes  : sequence of <<external id, label>>, index = internal id + 1
   blobs  : function internal id -> size of the "blob" property
   edges  : function <<src, dst>> -> number of parallel relationships (every create adds one, as in GraphAbs)
   foreign: a foreign write has been seen in this scenario (later content findings name it) *)
(* vac: the database has been vacuumed in this scenario: the file was rewritten, so pages met afterwards are adopted by
   their first writer, and what is found from then on is reported under C28 (vacuum preserves the database) *)
vars == <<l, owner, nodes, blobs, edges, foreign, vac>>
P == IF vac THEN "C28" ELSE "C18"
Emit(f) == PrintT(<<"FINDING", ToJson(f)>>)
Empty == [x \in {} |-> 0]

Init == l = 1 /\ owner = Empty /\ nodes = <<>> /\ blobs = Empty /\ edges = Empty /\ foreign = FALSE /\ vac = FALSE

TReset ==
  /\ l <= Len(Rec) /\ Rec[l].ev = "reset"
  /\ (IF Rec[l].open = "ok" THEN TRUE ELSE Emit([prop |-> P, at |-> l, id |-> Rec[l].id, kind |-> "open-failed", detail |-> Rec[l].open]))
  /\ owner' = Empty /\ nodes' = <<>> /\ blobs' = Empty /\ edges' = Empty /\ foreign' = FALSE /\ vac' = FALSE
  /\ l' = l + 1

(* fold of the pager events of one step: <<owner, sequence of offending events>> *)
RECURSIVE Fold(_, _, _, _, _)
Fold(evs, i, own, bad, blind) ==
  IF i > Len(evs) THEN <<own, bad>>
  ELSE LET op == evs[i][1] p == evs[i][2] w == evs[i][3]
           has == p \in DOMAIN own
           (* after a vacuum the file has been rewritten: a page met for the first time belongs to whoever touches it first *)
           adopt == blind /\ ~has
           own1 == IF adopt THEN (p :> w) @@ own ELSE own
           has1 == p \in DOMAIN own1
       IN CASE op = "ensure-new" -> Fold(evs, i + 1, (p :> w) @@ own, IF has THEN Append(bad, <<"bitmap-free-but-owned", p, w, own[p]>>) ELSE bad, blind)
            [] op = "alloc" -> Fold(evs, i + 1, (p :> w) @@ own, IF has /\ own[p] # w THEN Append(bad, <<"allocated-twice", p, w, own[p]>>) ELSE bad, blind)
            [] op = "free" -> Fold(evs, i + 1, [q \in DOMAIN own1 \ {p} |-> own1[q]],
                                   IF has1 /\ own1[p] = w THEN bad ELSE Append(bad, <<"foreign-free", p, w, IF has1 THEN own1[p] ELSE "free">>), blind)
            [] op \in {"write", "ensure-present"} ->
                 Fold(evs, i + 1, own1,
                      IF has1 /\ own1[p] = w THEN bad
                      ELSE IF Len(bad) > 0 /\ bad[Len(bad)][2] = p /\ bad[Len(bad)][3] = w THEN bad     \* one report per page and module in a row
                      ELSE Append(bad, <<IF op = "write" THEN "foreign-write" ELSE "foreign-ensure", p, w, IF has1 THEN own1[p] ELSE "free">>), blind)
            [] OTHER -> Fold(evs, i + 1, own, Append(bad, <<"unknown-event", p, w, op>>), blind)

Range1(a, b) == IF b < a THEN <<>> ELSE [i \in 1..(b - a + 1) |-> a + i - 1]

TStep ==
  /\ l <= Len(Rec) /\ Rec[l].ev = "step"
  /\ LET e == Rec[l]
         r == Fold(e.pages, 1, IF e.op = "vacuum" THEN Empty ELSE owner, <<>>, vac \/ e.op = "vacuum")
         bad == r[2]
         ok == e.res = "ok"
     IN /\ owner' = r[1]
        /\ vac' = (vac \/ e.op = "vacuum")
        /\ foreign' = (foreign \/ Len(bad) > 0)
        /\ (IF Len(bad) = 0 THEN TRUE
            ELSE Emit([prop |-> (IF vac \/ e.op = "vacuum" THEN "C28" ELSE "C18"), at |-> l, kind |-> bad[1][1], op |-> e.op, page |-> bad[1][2], by |-> bad[1][3], owner |-> bad[1][4],
                       more |-> Len(bad) - 1, others |-> SubSeq(bad, 2, IF Len(bad) > 6 THEN 6 ELSE Len(bad))]))
        /\ (IF ok THEN TRUE
            ELSE Emit([prop |-> (IF vac \/ e.op = "vacuum" THEN "C28" ELSE "C18"), at |-> l, kind |-> "step-failed", op |-> e.op, detail |-> e.res, after_foreign_write |-> foreign']))
        /\ nodes' = IF ok /\ e.op = "nodes" THEN nodes \o [k \in 1..e.info.n |-> <<e.info.first + k - 1, e.info.label>>] ELSE nodes
        /\ blobs' = IF ok /\ e.op = "blobs" THEN [i \in (DOMAIN blobs) \cup ToSet(e.info.set) |-> IF i \in ToSet(e.info.set) THEN e.info.size ELSE blobs[i]] ELSE blobs
        /\ edges' = IF ok /\ e.op = "edges"
                     THEN LET made == e.info.made
                              keys == {<<made[i][1], made[i][2]>> : i \in 1..Len(made)}
                          IN [x \in DOMAIN edges \cup keys |->
                                (IF x \in DOMAIN edges THEN edges[x] ELSE 0) + Cardinality({i \in 1..Len(made) : <<made[i][1], made[i][2]>> = x})]
                     ELSE edges
        (* the identities the engine handed out are the dense ones *)
        /\ (IF ~(ok /\ e.op = "nodes") \/ (e.info.first_iid = Len(nodes) /\ e.info.last_iid = Len(nodes) + e.info.n - 1) THEN TRUE
            ELSE Emit([prop |-> (IF vac \/ e.op = "vacuum" THEN "C28" ELSE "C18"), at |-> l, kind |-> "content", what |-> "internal ids not dense", got |-> <<e.info.first_iid, e.info.last_iid>>,
                       expected |-> <<Len(nodes), Len(nodes) + e.info.n - 1>>, after_foreign_write |-> foreign']))
  /\ l' = l + 1

BlobLen(i) == IF i \in DOMAIN blobs THEN blobs[i] ELSE -1
BlobSum(i) == IF i \in DOMAIN blobs THEN (blobs[i] * (97 + ((i + 1) % 26))) % 65536 ELSE -1
ExpectedNode(i) == <<i, nodes[i + 1][1], nodes[i + 1][2], nodes[i + 1][1], BlobLen(i), BlobSum(i)>>

TObs ==
  /\ l <= Len(Rec) /\ Rec[l].ev = "obs"
  /\ LET e == Rec[l]
         n == Len(nodes)
         wrongNodes == {k \in 1..Len(e.nodes) : k > n \/ e.nodes[k] # ExpectedNode(k - 1)}
         expEdges == {<<"o", x[1], x[2], edges[x]>> : x \in DOMAIN edges} \cup {<<"i", x[1], x[2], edges[x]>> : x \in DOMAIN edges}
         gotEdges == {<<e.edges[i][1], e.edges[i][2], e.edges[i][3], e.edges[i][4]>> : i \in 1..Len(e.edges)}
         badHits == {k \in 1..Len(e.lookups) :
                       LET q == e.lookups[k] IN
                       q.indexed /\ Len(q.hits) > 0 /\ \E h \in ToSet(q.hits) : h >= n \/ nodes[h + 1][1] # q.value \/ nodes[h + 1][2] # q.label}
     IN /\ (IF Len(e.errs) = 0 THEN TRUE
            ELSE Emit([prop |-> P, at |-> l, kind |-> "read-failed", errs |-> SubSeq(e.errs, 1, IF Len(e.errs) > 5 THEN 5 ELSE Len(e.errs)),
                       count |-> Len(e.errs), after_foreign_write |-> foreign]))
        /\ (IF Len(e.nodes) = n /\ wrongNodes = {} THEN TRUE
            ELSE Emit([prop |-> P, at |-> l, kind |-> "content", what |-> "nodes", expected_count |-> n, got_count |-> Len(e.nodes),
                       wrong |-> Cardinality(wrongNodes),
                       first_wrong |-> IF wrongNodes = {} THEN <<>> ELSE LET k == Min(wrongNodes) IN <<e.nodes[k], IF k <= n THEN ExpectedNode(k - 1) ELSE <<>>>>,
                       after_foreign_write |-> foreign]))
        /\ (IF gotEdges = expEdges /\ Len(e.edges) = Cardinality(gotEdges) THEN TRUE
            ELSE Emit([prop |-> P, at |-> l, kind |-> "content", what |-> "relationships (direction, source, target, multiplicity)",
                       missing |-> Cardinality(expEdges \ gotEdges), unexpected |-> Cardinality(gotEdges \ expEdges),
                       example |-> IF expEdges \ gotEdges # {} THEN CHOOSE y \in expEdges \ gotEdges : TRUE
                                   ELSE IF gotEdges \ expEdges # {} THEN CHOOSE y \in gotEdges \ expEdges : TRUE ELSE <<"listed twice", 0, 0, 0>>,
                       after_foreign_write |-> foreign]))
        /\ (IF badHits = {} THEN TRUE
            ELSE Emit([prop |-> P, at |-> l, kind |-> "content", what |-> "index hit on a node that does not have the value",
                       lookup |-> e.lookups[Min(badHits)], after_foreign_write |-> foreign]))
  /\ UNCHANGED <<owner, nodes, blobs, edges, foreign, vac>>
  /\ l' = l + 1

(***************************************************************************)
(* crashobs: a process-death or power-loss image taken after one I/O step  *)
(* of the operation that follows (a transaction creating nodes), opened by *)
(* the real recovery code and read back.  The content must be the state    *)
(* before the operation or the state after it, whole (C18 "stays readable  *)
(* and correct after reopen" at the moment the node table moves).          *)
(***************************************************************************)
TCrash ==
  /\ l <= Len(Rec) /\ Rec[l].ev = "crashobs"
  /\ LET e == Rec[l]
         n == Len(nodes)
         k == IF e.op = "nodes" THEN e.st.n ELSE 0
         post == IF e.op = "nodes" THEN nodes \o [i \in 1..k |-> <<e.first + i - 1, e.st.label>>] ELSE nodes
         Exp(sq, i) == <<i, sq[i + 1][1], sq[i + 1][2], sq[i + 1][1], BlobLen(i), BlobSum(i)>>
         isPre == Len(e.nodes) = n /\ \A j \in 1..n : e.nodes[j] = Exp(nodes, j - 1)
         isPost == Len(e.nodes) = n + k /\ \A j \in 1..(n + k) : e.nodes[j] = Exp(post, j - 1)
         expEdges == {<<"o", x[1], x[2], edges[x]>> : x \in DOMAIN edges} \cup {<<"i", x[1], x[2], edges[x]>> : x \in DOMAIN edges}
         edgesOk == {<<e.edges[i][1], e.edges[i][2], e.edges[i][3], e.edges[i][4]>> : i \in 1..Len(e.edges)} = expEdges /\ Len(e.edges) = Cardinality(expEdges)
     IN /\ (IF e.open = "ok" THEN TRUE
            ELSE Emit([prop |-> P, at |-> l, kind |-> "crash-image-does-not-open", image |-> e.kind, site |-> e.site, io_step |-> e.io_step, detail |-> e.open]))
        /\ (IF e.open # "ok" \/ Len(e.errs) = 0 THEN TRUE
            ELSE Emit([prop |-> P, at |-> l, kind |-> "crash-image-read-failed", image |-> e.kind, site |-> e.site, io_step |-> e.io_step,
                       errs |-> SubSeq(e.errs, 1, IF Len(e.errs) > 5 THEN 5 ELSE Len(e.errs))]))
        /\ (IF e.open # "ok" \/ Len(e.errs) > 0 \/ isPre \/ isPost THEN TRUE
            ELSE Emit([prop |-> P, at |-> l, kind |-> "crash-image-content", image |-> e.kind, site |-> e.site, io_step |-> e.io_step,
                       got_count |-> Len(e.nodes), before |-> n, after |-> n + k, after_foreign_write |-> foreign]))
        /\ (IF e.open # "ok" \/ Len(e.errs) > 0 \/ edgesOk THEN TRUE
            ELSE Emit([prop |-> P, at |-> l, kind |-> "crash-image-content", image |-> e.kind, site |-> e.site, io_step |-> e.io_step,
                       what |-> "relationships", after_foreign_write |-> foreign]))
  /\ UNCHANGED <<owner, nodes, blobs, edges, foreign, vac>>
  /\ l' = l + 1

Next == TReset \/ TStep \/ TObs \/ TCrash
Spec == Init /\ [][Next]_vars
TraceAccepted ==
  LET d == TLCGet("stats").diameter IN
  IF d - 1 = Len(Rec) THEN TRUE ELSE Print(<<"UNCONSUMED", d, Len(Rec)>>, FALSE)
=============================================================================
