SPECIFICATION MCSpec
CONSTANTS
  MaxNodes = 2
  Vals = {"s:v1", "s:v2"}
  MaxTx = 2
  MaxCompact = 1
  MaxCrash = 0
  MaxReopen = 1
  CrashKinds = {"process", "power"}
  AllowDelNode = FALSE
  AllowDelEdge = FALSE
  AllowRem = FALSE
  AllowLabel = TRUE
  AllowRecreate = FALSE
  AllowOverwrite = TRUE
  TruncateTornTail = TRUE
  StatsAllocSyncs = TRUE
  SyncBeforeManifest = TRUE
  FsyncOnCommit = TRUE
INVARIANTS ReadAgreeP DurableP PrefixP GhostWellFormed TxidsIncrease WatermarkOk CkptCovered
CONSTRAINT StateConstraint
VIEW ModelView
CHECK_DEADLOCK FALSE
