SPECIFICATION Spec
CONSTANTS MaxTx = 4
 MaxCrashes = 3
 OffsetPastBadCrc = FALSE
INVARIANT OpensAlways
INVARIANT SeesExactlyTheAcknowledged
INVARIANT NoJunkSurvivesOpen
CHECK_DEADLOCK FALSE
