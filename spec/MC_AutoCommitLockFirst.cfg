SPECIFICATION Spec
CONSTANTS Threads = {"W", "R", "X"}
  Order = "lock-first"
  History = FALSE
INVARIANT NoLostUpdate
PROPERTY EventuallyDone
