SPECIFICATION Spec
CONSTANTS Threads = {"W", "R", "X"}
  Order = "lock-first"
  ReleaseAt = "after-publish"
  History = FALSE
INVARIANT NoLostUpdate
PROPERTY EventuallyDone
