SPECIFICATION Spec
CONSTANTS Nodes = {1, 2}
 MaxOps = 5
 Backfill = FALSE
 AllLabels = FALSE
 NormaliseNumbers = FALSE
INVARIANT IndexTransparent
CHECK_DEADLOCK FALSE
