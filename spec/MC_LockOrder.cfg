SPECIFICATION OrderSpec
CONSTANT K = 1
INVARIANT NoSelfDeadlock
INVARIANT LockOrderCertificate
CHECK_DEADLOCK FALSE
