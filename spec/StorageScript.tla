--------------------------- MODULE StorageScript ---------------------------
(***************************************************************************)
(* Script-driven exploration of the implementation-shaped Storage model:   *)
(* the histories that the harness executes on the real engine are followed *)
(* operation by operation, with a crash (process death / power loss)       *)
(* allowed at every model step.  TLC prints                                *)
(*   QUIESCENT  <script, op index, View>     after every completed op      *)
(*   OUTCOME    <script, op index, kind, View | "open-failed">  after      *)
(*              recovery from a crash during / after that op               *)
(* The runner compares them with what the real code did: every real dump   *)
(* must equal the predicted quiescent view and every real crash image must *)
(* recover to one of the predicted outcomes of the same operation (model   *)
(* conformance; disagreements are "drift", the verdict stays with the      *)
(* GraphAbs oracle).                                                       *)
(***************************************************************************)
EXTENDS Storage, Json, IOUtils

Scripts == ndJsonDeserialize(IOEnv.SCRIPTS)

VARIABLES sid, ip, crashKind

svars == <<sid, ip, crashKind>>

SInit == Init /\ sid \in 1..Len(Scripts) /\ ip = 1 /\ crashKind = "none"

Ops == Scripts[sid].ops
AtOp == open /\ pc = Idle /\ ip <= Len(Ops) /\ cnt.crash = 0

Step(A) == A /\ UNCHANGED svars

SNext ==
  \/ /\ AtOp /\ Ops[ip].op = "tx"
     /\ BeginCommit(Ops[ip].ops) /\ ip' = ip + 1 /\ UNCHANGED <<sid, crashKind>>
  \/ /\ AtOp /\ Ops[ip].op \in {"abort", "create_index", "vacuum"}
     /\ ip' = ip + 1 /\ UNCHANGED vars /\ UNCHANGED <<sid, crashKind>>
  \/ /\ AtOp /\ Ops[ip].op \in {"compact", "checkpoint"}
     /\ IF Len(runs) > 0 THEN BeginCompact ELSE UNCHANGED vars
     /\ ip' = ip + 1 /\ UNCHANGED <<sid, crashKind>>
  \/ /\ AtOp /\ Ops[ip].op = "reopen"
     /\ IF Ops[ip].how = "close" THEN BeginClose ELSE Drop
     /\ ip' = ip + 1 /\ UNCHANGED <<sid, crashKind>>
  \/ Step(Commit_WalAppendOps) \/ Step(Commit_WalAppendCommit) \/ Step(Commit_WalFsync)
  \/ Step(Commit_I2eWrite) \/ Step(Commit_I2eMetaSync) \/ Step(Commit_LabelsApplied)
  \/ Step(Commit_PublishLabels) \/ Step(Commit_PublishRun)
  \/ Step(Compact_PersistSegment) \/ Step(Compact_PagerSync) \/ Step(Compact_SinkProps)
  \/ Step(Compact_StatsAlloc) \/ Step(Compact_WalManifest) \/ Step(Compact_WalFsync) \/ Step(Compact_Publish)
  \/ Step(Close_PagerSync) \/ Step(Close_TmpWrite) \/ Step(Close_TmpSync) \/ Step(Close_Rename)
  \/ Step(Close_WalFsync)
  \/ /\ ProcessCrash /\ crashKind' = "process" /\ UNCHANGED <<sid, ip>>
  \/ /\ PowerLoss /\ crashKind' = "power" /\ UNCHANGED <<sid, ip>>
  \/ Step(Open)

SSpec == SInit /\ [][SNext]_<<vars, svars>>

ViewJson(v) == [i \in Interfaces |-> SetToSeq(v[i])]

(* printed from state predicates (evaluated once per distinct state) *)
PrintQuiescent ==
  (open /\ pc = Idle /\ cnt.crash = 0 /\ recov \in {"none", "ok"}) =>
     PrintT(<<"QUIESCENT", ToJson([sid |-> sid, op |-> ip - 1, view |-> ViewJson(View)])>>)

PrintOutcome ==
  (cnt.crash = 1 /\ pc = Idle /\ (open \/ recov = "open-failed")) =>
     PrintT(<<"OUTCOME", ToJson([sid |-> sid, op |-> ip - 1, kind |-> crashKind, recov |-> recov,
                                 view |-> IF open THEN ViewJson(View) ELSE ViewJson([i \in Interfaces |-> {}])])>>)
=============================================================================
