SPECIFICATION Spec
CONSTANTS MaxStatements = 3
  MaxNodes = 3
  MaxClock = 6
  StepBack = TRUE
  History = FALSE
INVARIANT NeverFails
