SPECIFICATION Spec
CONSTANTS Threads = {"W", "R"}
  Order = "snapshot-first"
  History = FALSE
INVARIANT NoLostUpdate
PROPERTY EventuallyDone
