SPECIFICATION Spec
CONSTANTS Threads = {"W", "R"}
  Order = "lock-first"
  ReleaseAt = "before-publish"
  History = TRUE
INVARIANT EmitReplay
