------------------------------- MODULE Backup -------------------------------
(***************************************************************************)
(* Online backup (C29): BackupManager::execute_backup copies the page file *)
(* and then the log while a writer may commit, compact and checkpoint.     *)
(*                                                                         *)
(* Abstraction of the two files (what recovery needs from them):           *)
(*   ndb = [nodes |-> t, segs |-> S]   the node table covers transactions  *)
(*         1..t (it is written at commit); S = the transaction numbers c   *)
(*         for which a segment covering 1..c has been written              *)
(*   wal = [base |-> c, recs |-> seq]  a rewritten log starts from the     *)
(*         manifest of segment c (0 = none); recs are transactions         *)
(*         <<"t", n>> or manifest switches <<"m", c>> appended by compactions  *)
(* Recovery (GraphEngine::open): the last manifest (base or in recs) must  *)
(* point at a segment present in the page file; the content is that prefix *)
(* plus the transactions logged after it; the node table must not be ahead *)
(* of the log.                                                             *)
(*   WalFirst = TRUE copies the log before the page file (must fail);      *)
(*   CompactDuring = whether compaction / checkpoint may run between the   *)
(*   two copies (the known finding KF-24).                                 *)
(***************************************************************************)
EXTENDS Naturals, Sequences, FiniteSets, TLC

CONSTANTS MaxTx, WalFirst, CompactDuring
VARIABLES ndb, wal, committed, compacted, phase, ndbCopy, walCopy, atStart, seen
vars == <<ndb, wal, committed, compacted, phase, ndbCopy, walCopy, atStart, seen>>
(* phase: "idle" | "started" | "one" (first file copied) | "done";  seen = committed prefixes that existed during the backup *)

Init == /\ ndb = [nodes |-> 0, segs |-> {}] /\ wal = [base |-> 0, recs |-> <<>>]
        /\ committed = 0 /\ compacted = 0 /\ phase = "idle"
        /\ ndbCopy = ndb /\ walCopy = wal /\ atStart = 0 /\ seen = {}

Between == phase = "one"
Note(c) == seen' = IF phase \in {"started", "one"} THEN seen \cup {c} ELSE seen

Commit == /\ committed < MaxTx
          /\ committed' = committed + 1
          /\ wal' = [wal EXCEPT !.recs = Append(@, <<"t", committed + 1>>)]      \* log first (fsynced) ...
          /\ ndb' = [ndb EXCEPT !.nodes = committed + 1]                 \* ... then the node table
          /\ Note(committed + 1) /\ UNCHANGED <<compacted, phase, ndbCopy, walCopy, atStart>>
Compact == /\ compacted < committed
           /\ (CompactDuring \/ ~Between)
           /\ ndb' = [ndb EXCEPT !.segs = @ \cup {committed}]            \* segment pages written and fsynced ...
           /\ wal' = [wal EXCEPT !.recs = Append(@, <<"m", committed>>)] \* ... before the manifest switch is logged
           /\ compacted' = committed
           /\ Note(committed) /\ UNCHANGED <<committed, phase, ndbCopy, walCopy, atStart>>
Checkpoint == /\ compacted = committed /\ committed > 0 /\ Len(wal.recs) > 0   \* close-time log rewrite: nothing left in runs
              /\ (CompactDuring \/ ~Between)
              /\ wal' = [base |-> compacted, recs |-> <<>>]
              /\ Note(committed) /\ UNCHANGED <<ndb, committed, compacted, phase, ndbCopy, walCopy, atStart>>

Begin == /\ phase = "idle" /\ phase' = "started" /\ atStart' = committed /\ seen' = {committed}
         /\ UNCHANGED <<ndb, wal, committed, compacted, ndbCopy, walCopy>>
CopyFirst == /\ phase = "started" /\ phase' = "one"
             /\ IF WalFirst THEN walCopy' = wal /\ UNCHANGED ndbCopy ELSE ndbCopy' = ndb /\ UNCHANGED walCopy
             /\ UNCHANGED <<ndb, wal, committed, compacted, atStart, seen>>
CopySecond == /\ phase = "one" /\ phase' = "done"
              /\ IF WalFirst THEN ndbCopy' = ndb /\ UNCHANGED walCopy ELSE walCopy' = wal /\ UNCHANGED ndbCopy
              /\ UNCHANGED <<ndb, wal, committed, compacted, atStart, seen>>

Next == Commit \/ Compact \/ Checkpoint \/ Begin \/ CopyFirst \/ CopySecond
Spec == Init /\ [][Next]_vars

(* recovery of a pair of files: the committed prefix it yields, or 0 - 1 = "does not open / inconsistent" *)
Manifests(w) == {i \in 1..Len(w.recs) : w.recs[i][1] = "m"}
LastManifest(w) == IF Manifests(w) = {} THEN w.base
                   ELSE w.recs[CHOOSE i \in Manifests(w) : \A j \in Manifests(w) : j <= i][2]
TxAfter(w) == LET ms == Manifests(w)
                  from == IF ms = {} THEN 0 ELSE CHOOSE i \in ms : \A j \in ms : j <= i
              IN {w.recs[i][2] : i \in {j \in (from + 1)..Len(w.recs) : w.recs[j][1] = "t"}}
Broken == MaxTx + 1
Recover(n, w) ==
  LET c == LastManifest(w)
      after == TxAfter(w)
      top == IF after = {} THEN c ELSE CHOOSE t \in after : \A u \in after : u <= t
  IN IF c > 0 /\ c \notin n.segs THEN Broken              \* the manifest names a segment the page file does not hold
     ELSE IF after # {} /\ after # (c + 1)..top THEN Broken   \* a hole between the segment and the logged transactions
     ELSE IF n.nodes > top THEN Broken                     \* node table ahead of the log
     ELSE top

(* the live database is always recoverable to what was committed *)
LiveRecoverable == Recover(ndb, wal) = committed
(* C29 *)
BackupConsistent == phase = "done" =>
  LET r == Recover(ndbCopy, walCopy) IN r # Broken /\ r \in seen /\ r >= atStart
=============================================================================
