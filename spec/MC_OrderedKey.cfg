SPECIFICATION Spec
CONSTANT NormalizeNegZero = TRUE
INVARIANT OrderPreserved
INVARIANT PrefixFree
