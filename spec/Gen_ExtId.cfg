SPECIFICATION Spec
CONSTANTS MaxStatements = 2
  MaxNodes = 3
  MaxClock = 4
  StepBack = TRUE
  History = TRUE
INVARIANT EmitReplay
