-------------------------------- MODULE Hnsw --------------------------------
(***************************************************************************)
(* The HNSW vector index as implemented in                                 *)
(* nervusdb-storage/src/index/hnsw/logic.rs, transcribed action by action  *)
(* (C31).  One Insert is one atomic step (the engine holds the pager and   *)
(* the index mutex for its whole duration).                                *)
(*                                                                         *)
(*  - vectors are points on an integer line / grid (constant Pos), so      *)
(*    squared distances are exact and order like the f32 distances;        *)
(*  - the level of an inserted node is random in the code: here it is      *)
(*    chosen nondeterministically in 0..MaxLevel;                          *)
(*  - neighbour lists are sequences: `truncate(M)` keeps the oldest M.     *)
(*  - heaps order by (distance, id), as OrderedFloat + u32 tuples do.      *)
(*  - SkipSelf / KeepOld = FALSE is the pinned code, TRUE the code after   *)
(*    fix aa3452a (a re-inserted node is not its own candidate and keeps   *)
(*    its previous neighbours, capped at 2M).                              *)
(*                                                                         *)
(* Checked: every search answer is sound (distinct inserted nodes, sorted) *)
(* and, while the index holds at most 2M + 1 vectors, exactly the k        *)
(* nearest.                                                                *)
(***************************************************************************)
EXTENDS Integers, Sequences, FiniteSets, TLC

CONSTANTS Ids,        \* node ids, a set of naturals
          Choices,    \* vectors a node may be given: set of sequences of integers (all of one length)
          M, EfC, EfS, MaxLevel, MaxOps, Queries, K,
          Reinsert,   \* whether a node may be given a vector twice
          SkipSelf,   \* repair, part 1: a re-inserted node is not its own neighbour candidate
          KeepOld     \* repair, part 2: a re-inserted node keeps the neighbours it already had

VARIABLES vec, nbr, entry, maxLayer, ops
vars == <<vec, nbr, entry, maxLayer, ops>>
None == -1

Sq(x) == x * x
RECURSIVE D2(_, _, _)
D2(a, b, i) == IF i > Len(a) THEN 0 ELSE Sq(a[i] - b[i]) + D2(a, b, i + 1)
Dist(a, b) == D2(a, b, 1)

Nb(nb, l, n) == IF <<l, n>> \in DOMAIN nb THEN nb[<<l, n>>] ELSE <<>>
Less(p, q) == p[1] < q[1] \/ (p[1] = q[1] /\ p[2] < q[2])          \* (distance, id) order
MinOf(S) == CHOOSE p \in S : \A q \in S : p = q \/ Less(p, q)
MaxOf(S) == CHOOSE p \in S : \A q \in S : p = q \/ Less(q, p)

(* the inner `for &n in &neighbors` of search_layer: returns <<visited, candidates, nearest>> *)
RECURSIVE ScanNb(_, _, _, _, _, _, _, _)
ScanNb(vc, q, ns, i, ef, visited, cand, near) ==
  IF i > Len(ns) THEN <<visited, cand, near>>
  ELSE LET n == ns[i] IN
       IF n \in visited THEN ScanNb(vc, q, ns, i + 1, ef, visited, cand, near)
       ELSE LET dn == Dist(q, vc[n])
                take == Cardinality(near) < ef \/ dn < MaxOf(near)[1]
                near1 == IF take THEN near \cup {<<dn, n>>} ELSE near
                near2 == IF Cardinality(near1) > ef THEN near1 \ {MaxOf(near1)} ELSE near1
            IN ScanNb(vc, q, ns, i + 1, ef, visited \cup {n}, IF take THEN cand \cup {<<dn, n>>} ELSE cand, near2)

(* the `while let Some(c) = candidates.pop()` loop *)
RECURSIVE Layer(_, _, _, _, _, _, _, _)
Layer(vc, nb, q, ef, l, visited, cand, near) ==
  IF cand = {} THEN near
  ELSE LET c == MinOf(cand) IN
       IF c[1] > MaxOf(near)[1] /\ Cardinality(near) >= ef THEN near
       ELSE LET r == ScanNb(vc, q, Nb(nb, l, c[2]), 1, ef, visited, cand \ {c}, near)
            IN Layer(vc, nb, q, ef, l, r[1], r[2], r[3])

(* search_layer: entry points eps (a set), result = set of <<distance, id>> *)
SearchLayer(vc, nb, q, eps, ef, l) ==
  LET init == {<<Dist(q, vc[e]), e>> : e \in eps}
  IN Layer(vc, nb, q, ef, l, eps, init, init)

(* greedy descent on one layer: `while changed { for n in neighbors(curr) { if closer: curr = n } }` *)
RECURSIVE ScanGreedy(_, _, _, _, _, _)
ScanGreedy(vc, q, ns, i, cur, changed) ==      \* cur = <<distance, id>>
  IF i > Len(ns) THEN <<cur, changed>>
  ELSE LET dn == Dist(q, vc[ns[i]]) IN
       IF dn < cur[1] THEN ScanGreedy(vc, q, ns, i + 1, <<dn, ns[i]>>, TRUE)
       ELSE ScanGreedy(vc, q, ns, i + 1, cur, changed)
RECURSIVE Greedy(_, _, _, _, _)
Greedy(vc, nb, q, l, cur) ==
  LET r == ScanGreedy(vc, q, Nb(nb, l, cur[2]), 1, cur, FALSE)
  IN IF r[2] THEN Greedy(vc, nb, q, l, r[1]) ELSE cur
RECURSIVE Descend(_, _, _, _, _, _)
Descend(vc, nb, q, from, to, cur) ==           \* layers from, from-1, .., to
  IF from < to THEN cur ELSE Descend(vc, nb, q, from - 1, to, Greedy(vc, nb, q, from, cur))

(* select_neighbors: the m nearest of `found`, nearest first *)
RECURSIVE TopM(_, _)
TopM(S, m) == IF S = {} \/ m = 0 THEN <<>> ELSE LET p == MinOf(S) IN <<p[2]>> \o TopM(S \ {p}, m - 1)

(* back links of one layer *)
RECURSIVE BackLinks(_, _, _, _, _)
BackLinks(nb, l, id, ns, i) ==
  IF i > Len(ns) THEN nb
  ELSE LET n == ns[i]
           cur == Nb(nb, l, n)
           has == \E j \in 1..Len(cur) : cur[j] = id
           grown == Append(cur, id)
           kept == IF Len(grown) > 2 * M THEN SubSeq(grown, 1, M) ELSE grown
       IN BackLinks(IF has THEN nb ELSE (<<l, n>> :> kept) @@ nb, l, id, ns, i + 1)

(* step 4 of insert: layers level, level-1, .., 0 *)
RECURSIVE Connect(_, _, _, _, _, _)
Connect(vc, nb, id, v, l, eps) ==
  IF l < 0 THEN nb
  ELSE LET found == SearchLayer(vc, nb, v, eps, EfC, l)
           top == TopM(IF SkipSelf THEN {p \in found : p[2] # id} ELSE found, M)
           old == Nb(nb, l, id)
           extra == SelectSeq(old, LAMBDA n : n # id /\ ~\E j \in 1..Len(top) : top[j] = n)
           all == top \o extra
           ns == IF KeepOld THEN SubSeq(all, 1, IF Len(all) > 2 * M THEN 2 * M ELSE Len(all)) ELSE top
           nb1 == (<<l, id>> :> ns) @@ nb
           nb2 == BackLinks(nb1, l, id, ns, 1)
       IN Connect(vc, nb2, id, v, l - 1, {p[2] : p \in found})

Init == vec = [i \in {} |-> <<>>] /\ nbr = [x \in {} |-> <<>>] /\ entry = None /\ maxLayer = 0 /\ ops = 0

Insert(id, v, level) ==
  /\ ops < MaxOps
  /\ (IF Reinsert THEN id \in DOMAIN vec \/ id = Cardinality(DOMAIN vec)
      ELSE id = Cardinality(DOMAIN vec))                 \* fresh ids are handed out in order (symmetry reduction)
  /\ ops' = ops + 1
  /\ LET vc == (id :> v) @@ vec IN
     /\ vec' = vc
     /\ IF entry = None
        THEN /\ entry' = id /\ maxLayer' = level
             /\ nbr' = [x \in {<<l, id>> : l \in 0..level} |-> <<>>] @@ nbr
        ELSE LET start == <<Dist(v, vc[entry]), entry>>
                 ep == Descend(vc, nbr, v, maxLayer, level + 1, start)
             IN /\ nbr' = Connect(vc, nbr, id, v, level, {ep[2]})
                /\ entry' = IF level > maxLayer THEN id ELSE entry
                /\ maxLayer' = IF level > maxLayer THEN level ELSE maxLayer

Next == \E id \in Ids, v \in Choices, level \in 0..MaxLevel : Insert(id, v, level)
Spec == Init /\ [][Next]_vars

(* HnswIndex::search *)
RECURSIVE PopK(_, _)
PopK(S, k) == IF S = {} \/ k = 0 THEN <<>> ELSE LET p == MinOf(S) IN <<p>> \o PopK(S \ {p}, k - 1)
Search(q, k) ==
  IF entry = None THEN <<>>
  ELSE LET start == <<Dist(q, vec[entry]), entry>>
           ep == Descend(vec, nbr, q, maxLayer, 1, start)
           found == SearchLayer(vec, nbr, q, {ep[2]}, EfS, 0)
       IN PopK(found, IF k = 0 THEN 1 ELSE k)      \* the loop pushes before it tests `len >= k`

RECURSIVE SortedDists(_, _)
SortedDists(S, k) ==       \* the k smallest distances of a set of <<distance, id>>, ascending
  IF S = {} \/ k = 0 THEN <<>> ELSE LET p == MinOf(S) IN <<p[1]>> \o SortedDists(S \ {p}, k - 1)

Sound == \A q \in Queries, k \in 1..K :
  LET r == Search(q, k) IN
  /\ Len(r) <= k
  /\ \A i, j \in 1..Len(r) : i < j => r[i][2] # r[j][2] /\ r[i][1] <= r[j][1]
  /\ \A i \in 1..Len(r) : r[i][2] \in DOMAIN vec /\ r[i][1] = Dist(q, vec[r[i][2]])

ExactWhenSmall == Cardinality(DOMAIN vec) <= 2 * M + 1 =>
  \A q \in Queries, k \in 1..K :
    LET r == Search(q, k) IN
    [i \in 1..Len(r) |-> r[i][1]] = SortedDists({<<Dist(q, vec[n]), n>> : n \in DOMAIN vec}, k)
=============================================================================
