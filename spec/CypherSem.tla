------------------------------ MODULE CypherSem ------------------------------
(***************************************************************************)
(* Reference semantics of the read fragment of Cypher (C11, and the basis  *)
(* of C15 / C33 / C34): an independent evaluator, written against the      *)
(* openCypher definitions, over the plain property graph.  Nothing here    *)
(* mentions plans, iterators, indexes or storage.                          *)
(*                                                                         *)
(* Graph  G = [nodes |-> <<[id, labels, props]..>>,                        *)
(*             rels  |-> <<[src, type, tcp, dst, props, dead]..>>]         *)
(*   labels : sequence of strings; props : sequence of <<key, value, ..>>; *)
(*   parallel relationships are distinct entries of rels (an entry's index *)
(*   is its identity); tcp = code points of the type name.                 *)
(*                                                                         *)
(* Query AST (JSON arrays / objects, see lib/cyast.py for the renderer):   *)
(*   query  = [parts |-> <<part..>>, ret |-> proj]                         *)
(*   part   = [t |-> "match", opt, pats |-> <<pattern..>>, where]          *)
(*          | [t |-> "unwind", list |-> expr, var]                         *)
(*          | [t |-> "with", proj |-> proj, where]                         *)
(*   proj   = [distinct, items |-> <<[e, as]..>>, order |-> <<[col, dir]>>,*)
(*             skip, limit]          (order refers to item positions)      *)
(*   pattern= [nodes |-> <<[v, labels, props]..>>,                         *)
(*             rels |-> <<[v, types, dir, lo, hi]..>>]                     *)
(*   expr   = <<"lit", v>> | <<"var", x>> | <<"prop", expr, key>>          *)
(*          | <<"cmp", op, e1, e2>> | <<"and"|"or"|"xor", e1, e2>>         *)
(*          | <<"not"|"isnull"|"notnull", e>> | <<"id"|"type"|"labels"|    *)
(*            "size", e>> | <<"arith", op, e1, e2>> | <<"in", e1, e2>>     *)
(*          | <<"haslabel", e, label>> | <<"list", <<e..>>>>               *)
(*          | <<"agg", fn, distinct, e>>   (fn "count*" has no argument)   *)
(*   "where" is <<"none">> when absent.                                    *)
(***************************************************************************)
EXTENDS CypherVal, SequencesExt, FiniteSetsExt

B(b) == <<"bool", b>>
NodeV(id) == <<"node", id>>
RelV(G, j) == <<"rel", <<G.rels[j].src, G.rels[j].type, G.rels[j].dst>>, j>>

RECURSIVE ConcatAll(_, _)
ConcatAll(ss, i) == IF i > Len(ss) THEN <<>> ELSE ss[i] \o ConcatAll(ss, i + 1)
MapSeq(s, Op(_)) == [i \in 1..Len(s) |-> Op(s[i])]
FlatMap(s, Op(_)) == ConcatAll(MapSeq(s, Op), 1)
Filter(s, P(_)) == SelectSeq(s, P)

(***************************************************************************)
(* Equality and comparison (three-valued)                                  *)
(***************************************************************************)
RECURSIVE Eq3(_, _), ListEq3(_, _, _, _)
Eq3(a, b) ==
  IF IsNull(a) \/ IsNull(b) THEN Null
  ELSE IF IsNum(a) /\ IsNum(b) THEN
         (IF IsNaN(a) \/ IsNaN(b) THEN F ELSE IF NumCmp(a, b) = 0 THEN T ELSE F)
  ELSE IF a[1] # b[1] THEN F
  ELSE CASE a[1] = "str" -> B(a[2] = b[2])
         [] a[1] = "bool" -> B(a[2] = b[2])
         [] a[1] = "node" -> B(a[2] = b[2])
         [] a[1] = "rel" -> B(a[3] = b[3])
         [] a[1] = "list" -> IF Len(a[2]) # Len(b[2]) THEN F ELSE ListEq3(a[2], b[2], 1, FALSE)
         [] OTHER -> B(a = b)
ListEq3(x, y, i, sawNull) ==
  IF i > Len(x) THEN (IF sawNull THEN Null ELSE T)
  ELSE LET c == Eq3(x[i], y[i]) IN
       IF c = F THEN F ELSE ListEq3(x, y, i + 1, sawNull \/ IsNull(c))

(* <, <=, >, >= : defined between two numbers, two strings, two booleans; null otherwise *)
Cmp3(op, a, b) ==
  IF IsNull(a) \/ IsNull(b) THEN Null
  ELSE LET c == IF IsNum(a) /\ IsNum(b) THEN (IF IsNaN(a) \/ IsNaN(b) THEN 2 ELSE NumCmp(a, b))
                ELSE IF a[1] = "str" /\ b[1] = "str" THEN SeqCmpNat(a[2], b[2], 1)
                ELSE IF a[1] = "bool" /\ b[1] = "bool" THEN (IF a[2] = b[2] THEN 0 ELSE IF b[2] THEN -1 ELSE 1)
                ELSE 3
       IN IF c = 3 THEN Null
          ELSE IF c = 2 THEN F
          ELSE CASE op = "<" -> B(c < 0) [] op = "<=" -> B(c <= 0) [] op = ">" -> B(c > 0) [] op = ">=" -> B(c >= 0)
Compare(op, a, b) ==
  CASE op = "=" -> Eq3(a, b) [] op = "<>" -> Not3(Eq3(a, b)) [] OTHER -> Cmp3(op, a, b)

RECURSIVE In3(_, _, _, _)
In3(x, l, i, sawNull) ==
  IF i > Len(l) THEN (IF sawNull THEN Null ELSE F)
  ELSE LET c == Eq3(x, l[i]) IN IF c = T THEN T ELSE In3(x, l, i + 1, sawNull \/ IsNull(c))

(***************************************************************************)
(* Graph access                                                            *)
(***************************************************************************)
NodeRec(G, id) == G.nodes[CHOOSE i \in 1..Len(G.nodes) : G.nodes[i].id = id]
PropIn(props, key) ==
  IF \E i \in 1..Len(props) : props[i][1] = key
  THEN props[CHOOSE i \in 1..Len(props) : props[i][1] = key][2] ELSE Null
HasNode(G, id) == \E i \in 1..Len(G.nodes) : G.nodes[i].id = id
PropOf(G, v, key) ==   \* an entity the graph does not hold (yet) has no properties
  CASE v[1] = "node" -> IF HasNode(G, v[2]) THEN PropIn(NodeRec(G, v[2]).props, key) ELSE Null
    [] v[1] = "rel" -> IF v[3] <= Len(G.rels) THEN PropIn(G.rels[v[3]].props, key) ELSE Null
    [] v[1] = "map" -> (IF \E i \in 1..Len(v[2]) : v[2][i][1] = key
                        THEN v[2][CHOOSE i \in 1..Len(v[2]) : v[2][i][1] = key][2] ELSE Null)
    [] OTHER -> Null
HasLabel(G, id, lab) == HasNode(G, id) /\ \E i \in 1..Len(NodeRec(G, id).labels) : NodeRec(G, id).labels[i] = lab

(***************************************************************************)
(* Expressions (no aggregates here)                                        *)
(***************************************************************************)
IntArith(op, a, b) ==
  IF IsNull(a) \/ IsNull(b) THEN Null
  ELSE IF IsInt(a) /\ IsInt(b) THEN <<"int", ExactIntOp(op, a[2], b[2])>>
  ELSE <<"other", "arith">>

RECURSIVE Eval(_, _, _)
Eval(G, r, e) ==
  CASE e[1] = "lit" -> e[2]
    [] e[1] = "var" -> r[e[2]]
    [] e[1] = "prop" -> LET v == Eval(G, r, e[2]) IN IF IsNull(v) THEN Null ELSE PropOf(G, v, e[3])
    [] e[1] = "cmp" -> Compare(e[2], Eval(G, r, e[3]), Eval(G, r, e[4]))
    [] e[1] = "and" -> And3(Eval(G, r, e[2]), Eval(G, r, e[3]))
    [] e[1] = "or" -> Or3(Eval(G, r, e[2]), Eval(G, r, e[3]))
    [] e[1] = "xor" -> Xor3(Eval(G, r, e[2]), Eval(G, r, e[3]))
    [] e[1] = "not" -> Not3(Eval(G, r, e[2]))
    [] e[1] = "isnull" -> B(IsNull(Eval(G, r, e[2])))
    [] e[1] = "notnull" -> B(~IsNull(Eval(G, r, e[2])))
    [] e[1] = "id" -> LET v == Eval(G, r, e[2]) IN IF IsNull(v) THEN Null ELSE <<"int", ToBig(v[2])>>
    [] e[1] = "type" -> LET v == Eval(G, r, e[2]) IN IF IsNull(v) THEN Null ELSE <<"str", G.rels[v[3]].tcp>>
    [] e[1] = "size" -> LET v == Eval(G, r, e[2]) IN IF IsNull(v) THEN Null ELSE <<"int", ToBig(Len(v[2]))>>
    [] e[1] = "arith" -> IntArith(e[2], Eval(G, r, e[3]), Eval(G, r, e[4]))
    [] e[1] = "in" -> LET x == Eval(G, r, e[2]) l == Eval(G, r, e[3]) IN
                      IF IsNull(l) THEN Null
                      ELSE IF Len(l[2]) = 0 THEN F
                      ELSE IF IsNull(x) THEN Null ELSE In3(x, l[2], 1, FALSE)
    [] e[1] = "haslabel" -> LET v == Eval(G, r, e[2]) IN IF IsNull(v) THEN Null ELSE B(HasLabel(G, v[2], e[3]))
    [] e[1] = "list" -> <<"list", [i \in 1..Len(e[2]) |-> Eval(G, r, e[2][i])]>>
    [] OTHER -> <<"other", "expr">>

HasWhere(w) == w[1] # "none"
Passes(G, r, w) == ~HasWhere(w) \/ Eval(G, r, w) = T

(***************************************************************************)
(* Pattern matching with relationship uniqueness inside one MATCH          *)
(***************************************************************************)
Bind(r, v, val) == IF v = "" THEN r ELSE [x \in (DOMAIN r) \cup {v} |-> IF x = v THEN val ELSE r[x]]
Bound(r, v) == v # "" /\ v \in DOMAIN r

NodeFits(G, r, np, id) ==
  /\ \A i \in 1..Len(np.labels) : HasLabel(G, id, np.labels[i])
  /\ \A i \in 1..Len(np.props) : Eq3(PropIn(NodeRec(G, id).props, np.props[i][1]), Eval(G, r, np.props[i][2])) = T
  /\ (Bound(r, np.v) => r[np.v] = NodeV(id))

TypeFits(G, rp, j) ==
  /\ ~G.rels[j].dead     \* deleted relationships keep their position (CypherUpdate) and match nothing
  /\ (Len(rp.types) = 0 \/ \E i \in 1..Len(rp.types) : rp.types[i] = G.rels[j].type)
  (* an inline property map (literals; used by MERGE patterns): every listed key must be present and equal *)
  /\ ("mprops" \notin DOMAIN rp
      \/ \A i \in 1..Len(rp.mprops) : Eq3(PropIn(G.rels[j].props, rp.mprops[i][1]), rp.mprops[i][2][2]) = T)

(* relationship instances leaving `cur` along rp's direction: set of <<j, other end>>.
   An undirected step over a self loop yields the loop once. *)
Steps(G, rp, cur, used) ==
  {<<j, G.rels[j].dst>> : j \in {k \in (1..Len(G.rels)) \ used :
        TypeFits(G, rp, k) /\ rp.dir \in {"out", "both"} /\ G.rels[k].src = cur}}
  \cup
  {<<j, G.rels[j].src>> : j \in {k \in (1..Len(G.rels)) \ used :
        TypeFits(G, rp, k) /\ rp.dir \in {"in", "both"} /\ G.rels[k].dst = cur
        /\ ~(rp.dir = "both" /\ G.rels[k].src = cur)}}

(* walks of length lo..hi from cur: sequence of [rels |-> <<j..>>, at |-> node] *)
RECURSIVE Walks(_, _, _, _, _, _, _)
Walks(G, rp, cur, used, sofar, len, hi) ==
  (IF len >= rp.lo THEN << [rels |-> sofar, at |-> cur] >> ELSE <<>>)
  \o (IF len >= hi THEN <<>>
      ELSE FlatMap(SetToSeq(Steps(G, rp, cur, used)),
                   LAMBDA st : Walks(G, rp, st[2], used \cup {st[1]}, Append(sofar, st[1]), len + 1, hi)))

IsVarLen(rp) == ~(rp.lo = 1 /\ rp.hi = 1)

(* extend <<row, used, cur>> along the chain from relationship position i *)
RECURSIVE Chain(_, _, _, _, _, _)
Chain(G, pat, i, r, used, cur) ==
  IF i > Len(pat.rels) THEN << [row |-> r, used |-> used] >>
  ELSE LET rp == pat.rels[i] np == pat.nodes[i + 1]
           stepSeq == SetToSeq(Steps(G, rp, cur, used))
           ws == IF IsVarLen(rp) THEN Walks(G, rp, cur, used, <<>>, 0, rp.hi)
                 ELSE [k \in 1..Len(stepSeq) |-> [rels |-> <<stepSeq[k][1]>>, at |-> stepSeq[k][2]]]
           ok(w) ==
             /\ NodeFits(G, r, np, w.at)
             /\ (Bound(r, rp.v) =>
                   IF IsVarLen(rp) THEN FALSE ELSE r[rp.v] = RelV(G, w.rels[1]))
           val(w) == IF IsVarLen(rp) THEN <<"list", [k \in 1..Len(w.rels) |-> RelV(G, w.rels[k])]>>
                     ELSE RelV(G, w.rels[1])
       IN FlatMap(Filter(ws, ok),
                  LAMBDA w : Chain(G, pat, i + 1, Bind(Bind(r, rp.v, val(w)), np.v, NodeV(w.at)),
                                   used \cup {w.rels[k] : k \in 1..Len(w.rels)}, w.at))

NodeIds(G) == [i \in 1..Len(G.nodes) |-> G.nodes[i].id]
MatchPattern(G, pat, st) ==   \* st = [row, used]
  LET np == pat.nodes[1]
      starts == Filter(NodeIds(G), LAMBDA id : NodeFits(G, st.row, np, id))
  IN FlatMap(starts, LAMBDA id : Chain(G, pat, 1, Bind(st.row, np.v, NodeV(id)), st.used, id))

(* perPattern = FALSE: a relationship is matched at most once in the whole MATCH clause     *)
(* (openCypher).  perPattern = TRUE only scopes uniqueness to each comma-separated pattern; *)
(* it exists to attribute a divergence to that cause, never to accept it.                   *)
RECURSIVE MatchAll(_, _, _, _, _)
MatchAll(G, pats, i, sts, perPattern) ==
  IF i > Len(pats) THEN sts
  ELSE MatchAll(G, pats, i + 1,
                FlatMap(sts, LAMBDA st : MatchPattern(G, pats[i],
                                           IF perPattern THEN [row |-> st.row, used |-> {}] ELSE st)),
                perPattern)

PatVars(pats) ==
  UNION {{pats[i].nodes[k].v : k \in 1..Len(pats[i].nodes)} \cup {pats[i].rels[k].v : k \in 1..Len(pats[i].rels)}
         : i \in 1..Len(pats)} \ {""}

ApplyMatch(G, rows, part, perPattern) ==
  FlatMap(rows, LAMBDA r :
    LET ms == Filter(MapSeq(MatchAll(G, part.pats, 1, << [row |-> r, used |-> {}] >>, perPattern), LAMBDA st : st.row),
                     LAMBDA m : Passes(G, m, part.where))
    IN IF Len(ms) = 0 /\ part.opt
       THEN << [x \in (DOMAIN r) \cup PatVars(part.pats) |-> IF x \in DOMAIN r THEN r[x] ELSE Null] >>
       ELSE ms)

ApplyUnwind(G, rows, part) ==
  FlatMap(rows, LAMBDA r :
    LET l == Eval(G, r, part.list) IN
    IF IsNull(l) THEN <<>>
    ELSE IF l[1] = "list" THEN [i \in 1..Len(l[2]) |-> Bind(r, part.var, l[2][i])]
    ELSE << Bind(r, part.var, l) >>)

(***************************************************************************)
(* Projection, DISTINCT, aggregation                                       *)
(***************************************************************************)
IsAgg(e) == e[1] = "agg"

(* value identity used for grouping / DISTINCT / comparing results: like = but null = null,  *)
(* NaN = NaN, numbers of one kind by value; relationships by instance                        *)
RECURSIVE Same(_, _)
Same(a, b) ==
  IF a[1] # b[1] THEN FALSE
  ELSE CASE a[1] = "null" -> TRUE
         [] a[1] = "int" -> a[2] = b[2]
         [] a[1] = "float" -> IF IsNaN(a) \/ IsNaN(b) THEN IsNaN(a) /\ IsNaN(b)
                              ELSE IF IsOpaqueFloat(a) \/ IsOpaqueFloat(b) THEN a = b
                              ELSE NumCmp(a, b) = 0
         [] a[1] = "list" -> Len(a[2]) = Len(b[2]) /\ \A i \in 1..Len(a[2]) : Same(a[2][i], b[2][i])
         [] a[1] = "rel" -> a[2] = b[2]
         [] OTHER -> a = b
SameTuple(x, y) == Len(x) = Len(y) /\ \A i \in 1..Len(x) : Same(x[i], y[i])

RECURSIVE DistinctSeq(_, _, _)
DistinctSeq(s, i, acc) ==
  IF i > Len(s) THEN acc
  ELSE DistinctSeq(s, i + 1, IF \E k \in 1..Len(acc) : SameTuple(acc[k], s[i]) THEN acc ELSE Append(acc, s[i]))

RECURSIVE SumVals(_, _)
SumVals(vs, i) ==   \* exact integer sum (generators keep aggregated sums integral and in range)
  IF i > Len(vs) THEN BigZero ELSE BigAdd(vs[i][2], SumVals(vs, i + 1))

AggValue(G, rows, e) ==
  LET fn == e[2] IN
  IF fn = "count*" THEN <<"int", ToBig(Len(rows))>>
  ELSE
    LET all == Filter(MapSeq(rows, LAMBDA r : Eval(G, r, e[4])), LAMBDA v : ~IsNull(v))
        vs == IF e[3] THEN MapSeq(DistinctSeq(MapSeq(all, LAMBDA v : <<v>>), 1, <<>>), LAMBDA t : t[1]) ELSE all
    IN CASE fn = "count" -> <<"int", ToBig(Len(vs))>>
         [] fn = "collect" -> <<"list", vs>>
         [] fn = "sum" -> IF \A i \in 1..Len(vs) : IsInt(vs[i]) THEN <<"int", SumVals(vs, 1)>> ELSE <<"other", "sum">>
         [] fn = "min" -> IF Len(vs) = 0 THEN Null
                          ELSE vs[CHOOSE i \in 1..Len(vs) : \A j \in 1..Len(vs) : OrdCmp(vs[i], vs[j]) <= 0]
         [] fn = "max" -> IF Len(vs) = 0 THEN Null
                          ELSE vs[CHOOSE i \in 1..Len(vs) : \A j \in 1..Len(vs) : OrdCmp(vs[i], vs[j]) >= 0]
         [] OTHER -> <<"other", "agg">>

(* rows -> sequence of column tuples *)
Project(G, rows, proj) ==
  LET items == proj.items
      n == Len(items)
      aggIdx == {i \in 1..n : IsAgg(items[i].e)}
      keyIdx == (1..n) \ aggIdx
      keyOf(r) == [i \in 1..n |-> IF i \in keyIdx THEN Eval(G, r, items[i].e) ELSE Null]
      plain == MapSeq(rows, LAMBDA r : [i \in 1..n |-> Eval(G, r, items[i].e)])
      groups == DistinctSeq(MapSeq(rows, keyOf), 1, <<>>)
      grouped == IF keyIdx = {} THEN
                   << [i \in 1..n |-> AggValue(G, rows, items[i].e)] >>
                 ELSE MapSeq(groups, LAMBDA k :
                        LET members == Filter(rows, LAMBDA r : SameTuple(keyOf(r), k))
                        IN [i \in 1..n |-> IF i \in keyIdx THEN k[i] ELSE AggValue(G, members, items[i].e)])
      base == IF aggIdx = {} THEN plain ELSE grouped
  IN IF proj.distinct THEN DistinctSeq(base, 1, <<>>) ELSE base

(* WITH: the projected tuples become rows again *)
TuplesToRows(ts, proj) ==
  MapSeq(ts, LAMBDA t : [x \in {proj.items[i].as : i \in 1..Len(proj.items)} |->
                            t[CHOOSE i \in 1..Len(proj.items) : proj.items[i].as = x]])

ApplyPart(G, rows, part, perPattern) ==
  CASE part.t = "match" -> ApplyMatch(G, rows, part, perPattern)
    [] part.t = "unwind" -> ApplyUnwind(G, rows, part)
    [] part.t = "with" -> Filter(TuplesToRows(Project(G, rows, part.proj), part.proj),
                                 LAMBDA r : Passes(G, r, part.where))

RECURSIVE RunParts(_, _, _, _, _)
RunParts(G, rows, parts, i, perPattern) ==
  IF i > Len(parts) THEN rows ELSE RunParts(G, ApplyPart(G, rows, parts[i], perPattern), parts, i + 1, perPattern)

EmptyRow == [x \in {} |-> Null]
(* the result before ORDER BY / SKIP / LIMIT of the final RETURN: a bag of column tuples *)
ResultBagU(G, q, perPattern) == Project(G, RunParts(G, << EmptyRow >>, q.parts, 1, perPattern), q.ret)
ResultBag(G, q) == ResultBagU(G, q, FALSE)

(* facts about a query / graph used to attribute divergences *)
RECURSIVE ScopeAfter(_, _)
ScopeAfter(parts, i) ==     \* variables in scope after the first i parts
  IF i = 0 THEN {}
  ELSE LET p == parts[i] prev == ScopeAfter(parts, i - 1) IN
       CASE p.t = "match" -> prev \cup PatVars(p.pats)
         [] p.t = "unwind" -> prev \cup {p.var}
         [] p.t = "with" -> {p.proj.items[k].as : k \in 1..Len(p.proj.items)}
(* a node variable that is already bound appears strictly inside a chain of two or more hops *)
BoundMidNode(q) ==
  \E i \in 1..Len(q.parts) : q.parts[i].t = "match" /\
    \E j \in 1..Len(q.parts[i].pats) :
      LET pat == q.parts[i].pats[j]
          before == ScopeAfter(q.parts, i - 1) \cup PatVars(SubSeq(q.parts[i].pats, 1, j - 1))
      IN \E k \in 2..(Len(pat.nodes) - 1) :
           pat.nodes[k].v # "" /\ (pat.nodes[k].v \in before \/ \E m \in 1..(k - 1) : pat.nodes[m].v = pat.nodes[k].v)
MultiPattern(q) == \E i \in 1..Len(q.parts) : q.parts[i].t = "match" /\ Len(q.parts[i].pats) > 1
HasParallel(G) == \E i, j \in 1..Len(G.rels) :
   i < j /\ G.rels[i].src = G.rels[j].src /\ G.rels[i].type = G.rels[j].type /\ G.rels[i].dst = G.rels[j].dst

(***************************************************************************)
(* Judging an observed result against the bag: ORDER BY fixes the order up *)
(* to ties, SKIP / LIMIT select positions of that order.                   *)
(***************************************************************************)
(* collect() fixes no order: a collected list is compared as a bag (bagcols = such columns) *)
SameBag(a, b) ==
  a[1] = "list" /\ b[1] = "list" /\ Len(a[2]) = Len(b[2]) /\
  \A i \in 1..Len(a[2]) :
     Cardinality({j \in 1..Len(a[2]) : Same(a[2][j], a[2][i])}) = Cardinality({j \in 1..Len(b[2]) : Same(b[2][j], a[2][i])})
SameTupleB(x, y, bagcols) ==
  Len(x) = Len(y) /\ \A i \in 1..Len(x) : IF i \in bagcols THEN SameBag(x[i], y[i]) ELSE Same(x[i], y[i])
CountSameB(s, t, bagcols) == Cardinality({i \in 1..Len(s) : SameTupleB(s[i], t, bagcols)})
BagCols(q) == {i \in 1..Len(q.ret.items) : IsAgg(q.ret.items[i].e) /\ q.ret.items[i].e[2] = "collect"}
CountSame(s, t) == Cardinality({i \in 1..Len(s) : SameTuple(s[i], t)})
OrderKeys(t, order) == [k \in 1..Len(order) |-> t[order[k][1]]]
OrderDirs(order) == [k \in 1..Len(order) |-> order[k][2]]
=============================================================================
