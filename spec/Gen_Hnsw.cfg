SPECIFICATION GSpec
CONSTANTS Ids = {0, 1, 2, 3, 4}
 Choices <- Grid
 M = 2
 EfC = 200
 EfS = 200
 MaxLevel = 2
 MaxOps = 8
 Queries <- QGrid
 K = 3
 Reinsert = TRUE
 SkipSelf = TRUE
 KeepOld = TRUE
INVARIANT Emit
CHECK_DEADLOCK FALSE
