-------------------------------- MODULE Index --------------------------------
(***************************************************************************)
(* One property index (label L, property p) and the lookups it serves      *)
(* (C15).  Values: "i1" = integer 1, "f1" = float 1.0 (equal as values,    *)
(* different index keys unless NormaliseNumbers), "i2" = integer 2.        *)
(*                                                                         *)
(* As in WriteTxn::commit (IndexOp) and execute_index_seek:                *)
(*  - entries are maintained at commit for the node's FIRST label only     *)
(*    (AllLabels = FALSE) and never when labels are added or removed;      *)
(*  - creating the index does not add the existing nodes (Backfill=FALSE); *)
(*  - a lookup asks the index first, re-checks every hit against the node  *)
(*    (exists, has the label, value equal) and scans only when the index   *)
(*    returned NOTHING.                                                    *)
(* The three constants FALSE is the pinned code (known finding KF-14, one  *)
(* cause per constant); all TRUE is a repaired design under which the      *)
(* index is transparent.                                                   *)
(***************************************************************************)
EXTENDS Naturals, Sequences, FiniteSets, TLC

CONSTANTS Nodes, MaxOps, Backfill, AllLabels, NormaliseNumbers
L == "A"
Labels == {"A", "B"}
Vals == {"i1", "f1", "i2"}
None == "none"
Eq(a, b) == a = b \/ {a, b} = {"i1", "f1"}                    \* value equality (1 = 1.0)
Key(v) == IF NormaliseNumbers /\ v = "f1" THEN "i1" ELSE v      \* index key of a value

VARIABLES exists, labs, prop, created, entries, ops
vars == <<exists, labs, prop, created, entries, ops>>
(* labs[n] is a sequence: the first label is the one the node table persists *)

Init == /\ exists = [n \in Nodes |-> FALSE] /\ labs = [n \in Nodes |-> <<>>] /\ prop = [n \in Nodes |-> None]
        /\ created = FALSE /\ entries = {} /\ ops = 0

HasL(ls) == \E i \in 1..Len(ls) : ls[i] = L
Indexed(ls) == IF AllLabels THEN HasL(ls) ELSE Len(ls) > 0 /\ ls[1] = L      \* does maintenance look at this node
Step == ops < MaxOps /\ ops' = ops + 1

CreateNode(n, ls, v) ==
  /\ Step /\ ~exists[n] /\ labs[n] = <<>>           \* identities are not reused
  /\ exists' = [exists EXCEPT ![n] = TRUE] /\ labs' = [labs EXCEPT ![n] = ls] /\ prop' = [prop EXCEPT ![n] = v]
  /\ entries' = IF created /\ Indexed(ls) /\ v # None THEN entries \cup {<<Key(v), n>>} ELSE entries
  /\ UNCHANGED created
SetProp(n, v) ==
  /\ Step /\ exists[n]
  /\ prop' = [prop EXCEPT ![n] = v]
  /\ entries' = IF created /\ Indexed(labs[n])
                THEN (entries \ (IF prop[n] = None THEN {} ELSE {<<Key(prop[n]), n>>})) \cup (IF v = None THEN {} ELSE {<<Key(v), n>>})
                ELSE entries
  /\ UNCHANGED <<exists, labs, created>>
AddLabel(n, l) ==
  /\ Step /\ exists[n] /\ ~\E i \in 1..Len(labs[n]) : labs[n][i] = l
  /\ labs' = [labs EXCEPT ![n] = Append(@, l)]
  /\ entries' = IF AllLabels /\ created /\ l = L /\ prop[n] # None THEN entries \cup {<<Key(prop[n]), n>>} ELSE entries
  /\ UNCHANGED <<exists, prop, created>>
DeleteNode(n) ==
  /\ Step /\ exists[n]
  /\ exists' = [exists EXCEPT ![n] = FALSE]
  /\ UNCHANGED <<labs, prop, created, entries>>          \* entries stay; the re-check hides them
CreateIndex ==
  /\ Step /\ ~created /\ created' = TRUE
  /\ entries' = IF Backfill
                THEN {<<Key(prop[n]), n>> : n \in {m \in Nodes : exists[m] /\ Indexed(labs[m]) /\ prop[m] # None}}
                ELSE {}
  /\ UNCHANGED <<exists, labs, prop>>

Next == \/ \E n \in Nodes, v \in Vals \cup {None} :
             SetProp(n, v) \/ (\E ls \in {<<"A">>, <<"B">>, <<"A", "B">>, <<"B", "A">>} : CreateNode(n, ls, v))
        \/ \E n \in Nodes : DeleteNode(n) \/ \E l \in Labels : AddLabel(n, l)
        \/ CreateIndex
Spec == Init /\ [][Next]_vars

Matches(n, v) == exists[n] /\ HasL(labs[n]) /\ prop[n] # None /\ Eq(prop[n], v)
Scan(v) == {n \in Nodes : Matches(n, v)}
Lookup(v) ==
  IF ~created THEN Scan(v)
  ELSE LET hits == {e[2] : e \in {x \in entries : x[1] = Key(v)}}
       IN IF hits = {} THEN Scan(v) ELSE {n \in hits : Matches(n, v)}

(* C15 *)
IndexTransparent == \A v \in Vals : Lookup(v) = Scan(v)
=============================================================================
