----------------------------- MODULE SchedTrace -----------------------------
(***************************************************************************)
(* Trace specification for executions under forced schedules.              *)
(*                                                                         *)
(* snap (C03): a reader assembles a snapshot while one writer operation    *)
(*   (commit, compaction, index creation) runs; the controller forced one  *)
(*   interleaving of their schedule points.  pre / post are quiescent      *)
(*   dumps before / after the operation, d1 the dump through the reader's  *)
(*   snapshot, d2 the same snapshot read again after the writer finished.  *)
(*   Oracle: d1 is pre or post as a whole (every interface from the same   *)
(*   one), and d2 = d1.                                                    *)
(* incr (C09): threads run a read-modify-write statement through the       *)
(*   auto-commit entry point under a schedule generated from AutoCommit;   *)
(*   the counter must grow by the number of successful statements.         *)
(***************************************************************************)
EXTENDS GraphAbs, Json, IOUtils, TLC, Integers, SequencesExt, FiniteSetsExt

Rec == ndJsonDeserialize(IOEnv.TRACE)
VARIABLE l
Init == l = 1
Emit(f) == PrintT(<<"FINDING", ToJson(f)>>)

(* the reader's snapshot cannot resolve external ids (engine-level lookup), so e2i is left out *)
SnapIfaces == Interfaces \ {"e2i"}
DiffIfaces(a, b) == {i \in SnapIfaces : SeqSet(a[i]) # SeqSet(b[i])}
ReadErr(d) == Len(d.errs) > 0

(* schedule facts: the writer's publication steps and the reader's field reads *)
PubPoints == {"snapshot.after_begin_read", "commit.after_idmap", "commit.after_labels",
              "compact.before_sink", "compact.after_roots", "compact.after_clear_runs"}
ReadPoints == {"thread.start", "snapshot.after_i2e", "read.after_runs", "read.after_segments", "read.after_node_labels"}
Overlap(steps) ==
  LET n == Len(steps)
      pub == {i \in 1..n : steps[i][1] = "W" /\ steps[i][2] \in PubPoints}
      rd == {i \in 1..n : steps[i][1] = "R" /\ steps[i][2] \in ReadPoints}
  IN pub # {} /\ rd # {} /\
     LET p1 == CHOOSE i \in pub : \A j \in pub : i <= j
         p2 == CHOOSE i \in pub : \A j \in pub : i >= j
         r1 == CHOOSE i \in rd : \A j \in rd : i <= j
         r2 == CHOOSE i \in rd : \A j \in rd : i >= j
     IN ~(r2 < p1 \/ r1 > p2)

TSnap ==
  /\ l <= Len(Rec) /\ Rec[l].ev = "snap"
  /\ LET e == Rec[l]
         dpre == DiffIfaces(e.d1, e.pre) dpost == DiffIfaces(e.d1, e.post)
         (* the statistics interface (estimated counts) is only required to be stable: the same snapshot, the same answer *)
         stable == DiffIfaces(e.d1, e.d2) \cup (IF SeqSet(e.d1.cnt) # SeqSet(e.d2.cnt) THEN {"cnt"} ELSE {})
         wkind == e.writer[1].op
     IN /\ (IF ~e.late_read \/ dpre = {} THEN TRUE
            (* the snapshot was complete before the writer started: it must show the state before *)
            ELSE Emit([prop |-> "C03", at |-> l, id |-> e.id, kind |-> "snapshot-shows-a-later-commit", writer |-> wkind,
                       overlap |-> Overlap(e.steps), schedule |-> e.schedule, differs_from_pre |-> SetToSeq(dpre)]))
        /\ (IF dpre = {} \/ dpost = {} THEN TRUE
            ELSE Emit([prop |-> "C03", at |-> l, id |-> e.id, kind |-> "snapshot-is-no-committed-state",
                       writer |-> wkind, overlap |-> Overlap(e.steps), schedule |-> e.schedule,
                       differs_from_pre |-> SetToSeq(dpre), differs_from_post |-> SetToSeq(dpost)]))
        /\ (IF ~ReadErr(e.d1) /\ ~ReadErr(e.d2) THEN TRUE
            ELSE Emit([prop |-> "C03", at |-> l, id |-> e.id, kind |-> "snapshot-read-panicked", writer |-> wkind,
                       overlap |-> Overlap(e.steps), schedule |-> e.schedule, errs |-> e.d1.errs \o e.d2.errs]))
        /\ (IF stable = {} THEN TRUE
            ELSE Emit([prop |-> "C03", at |-> l, id |-> e.id, kind |-> "snapshot-changed-during-its-lifetime",
                       writer |-> wkind, overlap |-> Overlap(e.steps), schedule |-> e.schedule,
                       interfaces |-> SetToSeq(stable)]))
  /\ l' = l + 1

Val(q) == q.rows[1].v
TIncr ==
  /\ l <= Len(Rec) /\ Rec[l].ev = "incr"
  /\ LET e == Rec[l]
         oks == Cardinality({i \in 1..Len(e.results) : e.results[i].res.rc = 0})
     IN IF e.before.rc # 0 \/ e.after.rc # 0 THEN
          Emit([prop |-> "C09", at |-> l, id |-> e.id, kind |-> "probe-failed", schedule |-> e.schedule])
        ELSE IF e.mode = "increment" /\ Val(e.after) # Val(e.before) + oks THEN
          Emit([prop |-> "C09", at |-> l, id |-> e.id, kind |-> "lost-update", before |-> Val(e.before),
                after |-> Val(e.after), successful |-> oks, schedule |-> e.schedule])
        ELSE IF e.mode = "single" /\ Val(e.after) > 1 THEN
          Emit([prop |-> "C09", at |-> l, id |-> e.id, kind |-> "conditional-create-ran-twice", after |-> Val(e.after),
                successful |-> oks, schedule |-> e.schedule])
        ELSE TRUE
  /\ l' = l + 1

(***************************************************************************)
(* handles (C10): several handles on the same files.  A handle opened      *)
(* while another one is open must be refused (or wait); and whatever       *)
(* happened, the next open succeeds and finds every acknowledged node.     *)
(***************************************************************************)
THandles ==
  /\ l <= Len(Rec) /\ Rec[l].ev = "handles"
  /\ LET e == Rec[l]
         second == {i \in 1..Len(e.steps) : e.steps[i].kind \in {"open", "child-open"} /\ e.steps[i].others_open > 0
                                            /\ (e.steps[i].res = "ok")}
         exts == IF e.final.open = "ok" THEN {x[1] : x \in SeqSet(e.final.d.e2i)} ELSE {}
         lost == {i \in 1..Len(e.acked) : e.acked[i][2] \notin exts}
     IN /\ (IF second = {} THEN TRUE
            ELSE Emit([prop |-> "C10", at |-> l, id |-> e.id, kind |-> "second-handle-opened",
                       step |-> CHOOSE i \in second : TRUE, how |-> e.steps[CHOOSE i \in second : TRUE].kind]))
        /\ (IF e.final.open = "ok" THEN TRUE
            ELSE Emit([prop |-> "C10", at |-> l, id |-> e.id, kind |-> "open-fails-after-two-writers",
                       two_writers |-> second # {}, err |-> e.final.open]))
        /\ (IF e.final.open # "ok" \/ lost = {} THEN TRUE
            ELSE Emit([prop |-> "C10", at |-> l, id |-> e.id, kind |-> "acknowledged-commit-lost",
                       two_writers |-> second # {}, lost |-> [i \in 1..Len(e.acked) |-> e.acked[i]]]))
  /\ l' = l + 1

(***************************************************************************)
(* backup (C29): writer operations ran in the gaps of a backup (before the *)
(* page-file copy, between the copies, after the log copy).  states[k] are *)
(* the quiescent dumps at the start of the backup and after every writer   *)
(* operation.  A completed backup must restore to a database that opens    *)
(* and equals one of them.                                                 *)
(***************************************************************************)
SameDump(a, b) == \A i \in Interfaces : SeqSet(a[i]) = SeqSet(b[i])
TBackup ==
  /\ l <= Len(Rec) /\ Rec[l].ev = "backup"
  /\ LET e == Rec[l]
         ops == [i \in 1..Len(e.steps) |-> e.steps[i][2]]
         (* a compaction / checkpoint (or a close, which rewrites the log) ran after the page file was copied and *)
         (* before the log was copied                                                                              *)
         cpBetween == \E i \in 1..Len(e.steps) : e.steps[i][1] = "main" /\ e.steps[i][3] = "backup.between_copies"
                                                   /\ e.steps[i][2] \in {"compact", "checkpoint", "close-reopen"}
     IN IF e.backup # "ok" THEN TRUE          \* only completed backups are promised to restore
        ELSE IF e.restore # "ok" THEN
          Emit([prop |-> "C29", at |-> l, id |-> e.id, kind |-> "restore-failed", err |-> e.restore, steps |-> ops])
        ELSE IF e.open # "ok" THEN
          Emit([prop |-> "C29", at |-> l, id |-> e.id, kind |-> "restored-database-does-not-open", err |-> e.open, steps |-> ops,
                checkpoint_between_copies |-> cpBetween])
        ELSE IF Len(e.d.errs) > 0 THEN
          Emit([prop |-> "C29", at |-> l, id |-> e.id, kind |-> "restored-database-read-error", err |-> e.d.errs, steps |-> ops])
        ELSE IF \E k \in 1..Len(e.states) : SameDump(e.d, e.states[k]) THEN TRUE
        ELSE Emit([prop |-> "C29", at |-> l, id |-> e.id, kind |-> "restored-state-is-no-committed-state", steps |-> ops,
                   checkpoint_between_copies |-> cpBetween,
                   differs_from_start |-> SetToSeq({i \in Interfaces : SeqSet(e.d[i]) # SeqSet(e.states[1][i])}),
                   differs_from_end |-> SetToSeq({i \in Interfaces : SeqSet(e.d[i]) # SeqSet(e.states[Len(e.states)][i])})])
  /\ l' = l + 1

Next == TSnap \/ TIncr \/ THandles \/ TBackup
Spec == Init /\ [][Next]_l
TraceAccepted ==
  LET d == TLCGet("stats").diameter IN
  IF d - 1 = Len(Rec) THEN TRUE ELSE Print(<<"UNCONSUMED", d, Len(Rec)>>, FALSE)
=============================================================================
