-------------------------------- MODULE BTree --------------------------------
(***************************************************************************)
(* Implementation-shaped model of nervusdb-storage/src/index/btree.rs      *)
(* with a small fan-out (the real fan-out when keys are 2000-byte strings: *)
(* four cells per leaf and per internal page).                             *)
(*                                                                         *)
(* Transcribed: insert (upper-bound descent through internal pages,        *)
(* lower-bound slot in the leaf, median split, separator = first key of    *)
(* the right half, binary-search insertion position on split, recursive    *)
(* insert_into_parent with internal split), delete (upper-bound descent,   *)
(* binary search on (key, payload) inside one leaf, slot removed without   *)
(* reclaiming the cell bytes), cursor_lower_bound + advance.               *)
(*                                                                         *)
(* Oracle (ghost): the multiset of live <<key, payload, stamp>> triples.   *)
(* Properties (C26): a full scan is the stored multiset in key order; a    *)
(* lookup returns the most recently inserted live entry of the key; a      *)
(* delete of a stored pair succeeds and removes exactly that pair.         *)
(***************************************************************************)
EXTENDS Integers, Sequences, FiniteSets, TLC, SequencesExt, FiniteSetsExt, Functions, Json

CONSTANTS Keys, MaxOps, LeafCap, IntCap, AllowDup, AllowDelete

VARIABLES pg, root, nextPg, live, stamp, nops, log, lastDel

vars == <<pg, root, nextPg, live, stamp, nops, log, lastDel>>
ModelView == <<pg, root, nextPg, live, stamp, nops, lastDel>>

Leaf(cells, right, dead) == [kind |-> "L", cells |-> cells, right |-> right, dead |-> dead, left |-> 0]
Internal(left, cells) == [kind |-> "I", cells |-> cells, right |-> 0, dead |-> 0, left |-> left]

Init ==
  /\ pg = (1 :> Leaf(<<>>, 0, 0)) /\ root = 1 /\ nextPg = 2
  /\ live = {} /\ stamp = 1 /\ nops = 0 /\ log = <<>> /\ lastDel = "none"

InsAt(s, i, x) == SubSeq(s, 1, i - 1) \o <<x>> \o SubSeq(s, i, Len(s))     \* x becomes s[i]
RemAt(s, i) == SubSeq(s, 1, i - 1) \o SubSeq(s, i + 1, Len(s))

(* internal_child_for_key: child_pos = number of separators <= key (upper bound) *)
ChildPos(p, key) == Cardinality({i \in 1..Len(p.cells) : p.cells[i][1] <= key})
ChildAt(p, pos) == IF pos = 0 THEN p.left ELSE p.cells[pos][2]

(* leaf_lower_bound: number of cells with key < target *)
LowerBound(cells, key) == Cardinality({i \in 1..Len(cells) : cells[i][1] < key})

RECURSIVE Descend(_, _, _, _)
Descend(P, cur, key, path) ==
  IF P[cur].kind = "L" THEN [leaf |-> cur, path |-> path]
  ELSE LET pos == ChildPos(P[cur], key) IN
       Descend(P, ChildAt(P[cur], pos), key, Append(path, <<cur, pos>>))

(* insert_into_parent, returns [pg, root, next] *)
RECURSIVE IntoParent(_, _, _, _, _, _, _)
IntoParent(P, rt, nx, path, leftId, sep, rightId) ==
  IF Len(path) = 0
  THEN [pg |-> P @@ (nx :> Internal(leftId, <<<<sep, rightId>>>>)), root |-> nx, next |-> nx + 1]
  ELSE LET par == path[Len(path)]
           pid == par[1] pos == par[2]
           rest == SubSeq(path, 1, Len(path) - 1)
           page == P[pid]
       IN IF Len(page.cells) < IntCap
          THEN [pg |-> [P EXCEPT ![pid].cells = InsAt(@, pos + 1, <<sep, rightId>>)], root |-> rt, next |-> nx]
          ELSE LET keys0 == [i \in 1..Len(page.cells) |-> page.cells[i][1]]
                   ch0 == <<page.left>> \o [i \in 1..Len(page.cells) |-> page.cells[i][2]]
                   keys == InsAt(keys0, pos + 1, sep)
                   ch == InsAt(ch0, pos + 2, rightId)
                   mid == Len(keys) \div 2                 \* 0-based index of the promoted key
                   promote == keys[mid + 1]
                   lk == SubSeq(keys, 1, mid)
                   rk == SubSeq(keys, mid + 2, Len(keys))
                   lc == SubSeq(ch, 1, mid + 1)
                   rc == SubSeq(ch, mid + 2, Len(ch))
                   lpage == Internal(lc[1], [i \in 1..Len(lk) |-> <<lk[i], lc[i + 1]>>])
                   rpage == Internal(rc[1], [i \in 1..Len(rk) |-> <<rk[i], rc[i + 1]>>])
                   P2 == [P EXCEPT ![pid] = lpage] @@ (nx :> rpage)
               IN IntoParent(P2, rt, nx + 1, rest, pid, promote, nx)

(* positions binary_search_by(key) may return on a split: any index of an equal key, else the
   insertion point (the exact index among equal keys is an implementation detail of std) *)
SplitPositions(entries, key) ==
  LET eq == {i \in 1..Len(entries) : entries[i][1] = key} IN
  IF eq # {} THEN eq ELSE {LowerBound(entries, key) + 1}

Insert(key, payload) ==
  /\ nops < MaxOps
  /\ AllowDup \/ ~\E e \in live : e[1] = key
  /\ LET d == Descend(pg, root, key, <<>>)
         lf == pg[d.leaf]
         idx == LowerBound(lf.cells, key) + 1
     IN IF Len(lf.cells) + lf.dead < LeafCap
        THEN /\ pg' = [pg EXCEPT ![d.leaf].cells = InsAt(@, idx, <<key, payload>>)]
             /\ UNCHANGED <<root, nextPg>>
        ELSE \E pos \in SplitPositions(lf.cells, key) :
               LET entries == InsAt(lf.cells, pos, <<key, payload>>)
                   mid == Len(entries) \div 2
                   le == SubSeq(entries, 1, mid)
                   re == SubSeq(entries, mid + 1, Len(entries))
                   sep == re[1][1]
                   P1 == [pg EXCEPT ![d.leaf] = Leaf(le, nextPg, 0)] @@ (nextPg :> Leaf(re, lf.right, 0))
                   r == IntoParent(P1, root, nextPg + 1, d.path, d.leaf, sep, nextPg)
               IN pg' = r.pg /\ root' = r.root /\ nextPg' = r.next
  /\ live' = live \cup {<<key, payload, stamp>>}
  /\ stamp' = stamp + 1 /\ nops' = nops + 1
  /\ log' = Append(log, <<"ins", key, payload>>)
  /\ lastDel' = "none"

(* std binary search (branch-free variant) over the slots of one leaf by (key, payload) *)
PairLess(a, b) == a[1] < b[1] \/ (a[1] = b[1] /\ a[2] < b[2])
RECURSIVE BS(_, _, _, _)
BS(cells, target, base, size) ==
  IF size > 1
  THEN LET half == size \div 2 mid == base + half IN
       BS(cells, target, IF PairLess(target, cells[mid + 1]) THEN base ELSE mid, size - half)
  ELSE base
BinarySearch(cells, target) ==          \* 1-based index of a match or 0
  IF Len(cells) = 0 THEN 0
  ELSE LET b == BS(cells, target, 0, Len(cells)) IN IF cells[b + 1] = target THEN b + 1 ELSE 0

Delete(key, payload) ==
  /\ AllowDelete /\ nops < MaxOps
  /\ \E e \in live : e[1] = key /\ e[2] = payload           \* delete a stored pair
  /\ LET d == Descend(pg, root, key, <<>>)
         lf == pg[d.leaf]
         i == BinarySearch(lf.cells, <<key, payload>>)
     IN IF i > 0
        THEN /\ pg' = [pg EXCEPT ![d.leaf].cells = RemAt(@, i), ![d.leaf].dead = @ + 1]
             /\ lastDel' = "found"
        ELSE /\ pg' = pg /\ lastDel' = "missed"
  /\ live' = {e \in live : ~(e[1] = key /\ e[2] = payload)}
  /\ nops' = nops + 1
  /\ log' = Append(log, <<"del", key, payload>>)
  /\ UNCHANGED <<root, nextPg, stamp>>

Next ==
  \/ \E k \in Keys : Insert(k, stamp)
  \/ \E e \in live : Delete(e[1], e[2])

Spec == Init /\ [][Next]_vars

(***************************************************************************)
(* Reads                                                                   *)
(***************************************************************************)
RECURSIVE ScanFrom(_, _, _)
ScanFrom(P, leaf, slot) ==             \* slot: 1-based first cell to return
  LET c == P[leaf].cells
      here == IF slot <= Len(c) THEN SubSeq(c, slot, Len(c)) ELSE <<>>
  IN IF P[leaf].right = 0 THEN here ELSE here \o ScanFrom(P, P[leaf].right, 1)

CursorScan(key) ==
  LET d == Descend(pg, root, key, <<>>) IN ScanFrom(pg, d.leaf, LowerBound(pg[d.leaf].cells, key) + 1)

MinKey == CHOOSE k \in Keys : \A j \in Keys : k <= j
FullScan == CursorScan(MinKey - 1)

Lookup(key) == LET s == CursorScan(key) IN IF Len(s) > 0 /\ s[1][1] = key THEN <<s[1][2]>> ELSE <<>>

Newest(key) ==
  LET es == {e \in live : e[1] = key} IN
  IF es = {} THEN <<>> ELSE <<(CHOOSE e \in es : \A f \in es : f[3] <= e[3])[2]>>

(***************************************************************************)
(* Properties                                                              *)
(***************************************************************************)
Cex(name) == PrintT(<<"CEX", name, ToJson(log)>>) /\ FALSE

SortedSeq(s) == \A i \in 1..(Len(s) - 1) : s[i][1] <= s[i + 1][1]
ScanIsSortedMultiset ==
  LET s == FullScan IN
  /\ SortedSeq(s)
  /\ Len(s) = Cardinality(live)
  /\ {<<s[i][1], s[i][2]>> : i \in 1..Len(s)} = {<<e[1], e[2]>> : e \in live}
LookupNewest == \A k \in Keys : Lookup(k) = Newest(k)
DeleteExactlyOne == lastDel # "missed"

ScanP == ScanIsSortedMultiset \/ Cex("ScanIsSortedMultiset")
LookupP == LookupNewest \/ Cex("LookupNewest")
DeleteP == DeleteExactlyOne \/ Cex("DeleteExactlyOne")

(* structure *)
Leaves == {p \in DOMAIN pg : pg[p].kind = "L"}
RECURSIVE Chain(_)
Chain(p) == IF pg[p].right = 0 THEN <<p>> ELSE <<p>> \o Chain(pg[p].right)
RECURSIVE Leftmost(_)
Leftmost(p) == IF pg[p].kind = "L" THEN p ELSE Leftmost(pg[p].left)
SiblingChainCoversLeaves == Range(Chain(Leftmost(root))) = Leaves
LeavesSorted == \A p \in Leaves : SortedSeq(pg[p].cells)
WithinCapacity == \A p \in DOMAIN pg :
   IF pg[p].kind = "L" THEN Len(pg[p].cells) + pg[p].dead <= LeafCap ELSE Len(pg[p].cells) <= IntCap
=============================================================================
