SPECIFICATION Spec
CONSTANTS Ids = {0, 1, 2, 3}
 Choices <- Line4
 M = 2
 EfC = 10
 EfS = 10
 MaxLevel = 1
 MaxOps = 5
 Queries <- QLine
 K = 3
 Reinsert = TRUE
 SkipSelf = FALSE
 KeepOld = FALSE
INVARIANT Sound
INVARIANT ExactWhenSmall
CHECK_DEADLOCK FALSE
