SPECIFICATION Spec
CONSTANTS Threads = {"W", "R"}
  Order = "snapshot-first"
  History = TRUE
INVARIANT EmitReplay
