SPECIFICATION Spec
CONSTANTS Nodes = {1, 2}
 MaxOps = 5
 Backfill = FALSE
 AllLabels = TRUE
 NormaliseNumbers = TRUE
INVARIANT IndexTransparent
CHECK_DEADLOCK FALSE
