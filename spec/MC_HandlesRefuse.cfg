SPECIFICATION Spec
CONSTANTS Handle = {"h1", "h2"}
  Refuse = TRUE
  MaxCommits = 4
INVARIANT AtMostOneWriter
INVARIANT UniqueIds
INVARIANT DenseIds
