----------------------------- MODULE StorageMC -----------------------------
(***************************************************************************)
(* Model-checking wrapper of Storage: carries the high-level operation log *)
(* as a history variable (hidden from the state fingerprint by ModelView)  *)
(* so that a counterexample can be printed as a history and replayed into  *)
(* the real engine.                                                        *)
(***************************************************************************)
EXTENDS Storage, Json

VARIABLE log

MCInit == Init /\ log = <<>>

MCNext ==
  \/ \E ops \in Menu(Cur) : BeginCommit(ops) /\ log' = Append(log, [op |-> "tx", ops |-> ops])
  \/ BeginCompact /\ log' = Append(log, [op |-> "compact"])
  \/ BeginClose /\ log' = Append(log, [op |-> "reopen", how |-> "close"])
  \/ Drop /\ log' = Append(log, [op |-> "reopen", how |-> "drop"])
  \/ ProcessCrash /\ log' = Append(log, [op |-> "crash", kind |-> "process", during |-> pc.op, step |-> pc.step])
  \/ PowerLoss /\ log' = Append(log, [op |-> "crash", kind |-> "power", during |-> pc.op, step |-> pc.step])
  \/ Commit_WalAppendOps /\ log' = log
  \/ Commit_WalAppendCommit /\ log' = log
  \/ Commit_WalFsync /\ log' = log
  \/ Commit_I2eWrite /\ log' = log
  \/ Commit_I2eMetaSync /\ log' = log
  \/ Commit_LabelsApplied /\ log' = log
  \/ Commit_PublishLabels /\ log' = log
  \/ Commit_PublishRun /\ log' = log
  \/ Compact_PersistSegment /\ log' = log
  \/ Compact_PagerSync /\ log' = log
  \/ Compact_SinkProps /\ log' = log
  \/ Compact_StatsAlloc /\ log' = log
  \/ Compact_WalManifest /\ log' = log
  \/ Compact_WalFsync /\ log' = log
  \/ Compact_Publish /\ log' = log
  \/ Close_PagerSync /\ log' = log
  \/ Close_TmpWrite /\ log' = log
  \/ Close_TmpSync /\ log' = log
  \/ Close_Rename /\ log' = log
  \/ Close_WalFsync /\ log' = log
  \/ Open /\ log' = log

MCSpec == MCInit /\ [][MCNext]_<<vars, log>>

ModelView == vars

Cex(name) == PrintT(<<"CEX", name, ToJson(log)>>) /\ FALSE

ReadAgreeP == ReadAgree \/ Cex("ReadAgree")
DurableP == Durable \/ Cex("Durable")
PrefixP == Prefix \/ Cex("Prefix")
=============================================================================
