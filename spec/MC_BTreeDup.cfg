SPECIFICATION Spec
CONSTANTS
  Keys = {1, 2, 3}
  MaxOps = 8
  LeafCap = 2
  IntCap = 2
  AllowDup = TRUE
  AllowDelete = TRUE
INVARIANTS ScanP LookupP DeleteP SiblingChainCoversLeaves LeavesSorted WithinCapacity
VIEW ModelView
CHECK_DEADLOCK FALSE
