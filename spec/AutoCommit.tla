----------------------------- MODULE AutoCommit -----------------------------
(***************************************************************************)
(* The auto-commit write entry point of the C API (C09), one action per    *)
(* critical section of execute_write_count:                                *)
(*     snapshot := db.snapshot();  txn := db.begin_write();                *)
(*     execute(statement, snapshot, txn);  txn.commit()                    *)
(* Threads run a read-modify-write statement on a shared counter.  Order   *)
(* says which of the first two steps the code takes first, so the module   *)
(* describes the code before ("snapshot-first") and after ("lock-first")   *)
(* the repair.  Property: the counter ends at the number of successful     *)
(* increments (no lost update) - as if the statements ran one at a time.   *)
(* With History the behaviours are also the schedules replayed into the    *)
(* real entry point (TLC as generator).                                    *)
(***************************************************************************)
EXTENDS Naturals, Sequences, FiniteSets, TLC, Json

CONSTANTS Threads, Order, History,
          ReleaseAt    \* "after-publish": the writer lock is held until the new state is published (the code);
                       \* "before-publish": it is released once the commit is durable (a tempting "optimisation")

VARIABLES pc, snap, ctr, holder, done, hist,
          pending    \* thread -> value made durable but not yet published
vars == <<pc, snap, ctr, holder, done, hist, pending>>

Init == /\ pc = [t \in Threads |-> "start"] /\ snap = [t \in Threads |-> 0] /\ ctr = 0
        /\ holder = "none" /\ done = 0 /\ hist = <<>> /\ pending = [t \in Threads |-> 0]

Log(t, point) == hist' = IF History THEN Append(hist, <<t, point>>) ELSE hist

(* db.snapshot() reads the published runs first and the rest afterwards; the value a statement will see is fixed by the first read *)
SnapshotRuns(t) ==
  /\ pc[t] = (IF Order = "snapshot-first" THEN "start" ELSE "locked")
  /\ snap' = [snap EXCEPT ![t] = ctr]
  /\ pc' = [pc EXCEPT ![t] = "snapping"]
  /\ Log(t, "read.after_runs") /\ UNCHANGED <<ctr, holder, done, pending>>
TakeSnapshot(t) ==
  /\ pc[t] = "snapping"
  /\ pc' = [pc EXCEPT ![t] = IF Order = "snapshot-first" THEN "snapped" ELSE "ready"]
  /\ Log(t, "capi.write.after_snapshot") /\ UNCHANGED <<snap, ctr, holder, done, pending>>

Acquire(t) ==
  /\ pc[t] = (IF Order = "snapshot-first" THEN "snapped" ELSE "start")
  /\ holder = "none" /\ holder' = t
  /\ pc' = [pc EXCEPT ![t] = IF Order = "snapshot-first" THEN "ready" ELSE "locked"]
  /\ Log(t, "capi.write.after_begin_write") /\ UNCHANGED <<snap, ctr, done, pending>>

ExecuteDurable(t) ==  \* evaluate against the snapshot, log + fsync + node table: durable, not yet visible
  /\ pc[t] = "ready" /\ holder = t
  /\ pending' = [pending EXCEPT ![t] = snap[t] + 1]
  /\ holder' = IF ReleaseAt = "before-publish" THEN "none" ELSE holder
  /\ pc' = [pc EXCEPT ![t] = "durable"]
  /\ Log(t, "commit.after_idmap") /\ UNCHANGED <<snap, ctr, done>>

Publish(t) ==         \* publish labels and the run: visible to new snapshots; release the writer lock
  /\ pc[t] = "durable"
  /\ ctr' = pending[t] /\ done' = done + 1
  /\ holder' = IF holder = t THEN "none" ELSE holder
  /\ pc' = [pc EXCEPT ![t] = "done"]
  /\ Log(t, "done") /\ UNCHANGED <<snap, pending>>

Terminated == \A t \in Threads : pc[t] = "done"
Next == (\E t \in Threads : SnapshotRuns(t) \/ TakeSnapshot(t) \/ Acquire(t) \/ ExecuteDurable(t) \/ Publish(t)) \/ (Terminated /\ UNCHANGED vars)
Spec == Init /\ [][Next]_vars /\ WF_vars(Next)

NoLostUpdate == Terminated => ctr = done
Serializable == ctr <= done
EventuallyDone == <>Terminated
(* generator: one line per complete behaviour *)
EmitReplay == Terminated => PrintT(<<"REPLAY", ToJson(hist)>>)
=============================================================================
