-------------------------------- MODULE Pages --------------------------------
(***************************************************************************)
(* The page allocator and the structures that live in the page file (C18). *)
(*                                                                         *)
(* Every structure (segments, B-trees, blob chains, the index catalogue)   *)
(* gets its pages from Pager::allocate_page - lowest free page below the   *)
(* high-water mark, else the page at the mark - and only writes pages it   *)
(* allocated.  The node table (idmap) is different: record n lives in page *)
(* start + n \div RPP, and the code only calls ensure_allocated on that    *)
(* page, which keeps a page that is already in use as it is.               *)
(*   Relocate = FALSE is the pinned code: the table writes into whatever   *)
(*   page follows it.  Relocate = TRUE is the repaired code (fix e4d74e8): *)
(*   when a record opens a new page that is in use, the table is copied to *)
(*   consecutive pages at the high-water mark and the old pages are freed. *)
(* content[p] is the structure whose data page p holds (ghost).            *)
(***************************************************************************)
EXTENDS Naturals, FiniteSets, TLC

CONSTANTS MaxPage,      \* pages are FirstPage..MaxPage
          RPP,          \* node records per page (512 in the code)
          MaxLen,       \* bound on the number of nodes
          Others,       \* the structures other than the node table
          Relocate
FirstPage == 2
Page == FirstPage..MaxPage
Free == "free"
Idmap == "idmap"

VARIABLES owner, next, content, i2eStart, i2eLen
vars == <<owner, next, content, i2eStart, i2eLen>>

Init == /\ owner = [p \in Page |-> Free]
        /\ content = [p \in Page |-> Free]
        /\ next = FirstPage
        /\ i2eStart = 0
        /\ i2eLen = 0

(* Pager::allocate_page *)
Candidate == IF \E p \in FirstPage..(next - 1) : owner[p] = Free
             THEN CHOOSE p \in FirstPage..(next - 1) : owner[p] = Free /\ \A q \in FirstPage..(p - 1) : owner[q] # Free
             ELSE next
Alloc(s) ==
  /\ Candidate \in Page
  /\ owner' = [owner EXCEPT ![Candidate] = s]
  /\ content' = [content EXCEPT ![Candidate] = s]          \* every caller writes the page it just got
  /\ next' = IF Candidate = next THEN next + 1 ELSE next
  /\ UNCHANGED <<i2eStart, i2eLen>>

WriteOwned(s, p) == /\ owner[p] = s
                    /\ content' = [content EXCEPT ![p] = s]
                    /\ UNCHANGED <<owner, next, i2eStart, i2eLen>>

FreeOwned(s, p) == /\ owner[p] = s
                   /\ owner' = [owner EXCEPT ![p] = Free]
                   /\ content' = [content EXCEPT ![p] = Free]
                   /\ UNCHANGED <<next, i2eStart, i2eLen>>

(* IdMap::apply_create_node: one node record appended *)
UsedPages == (i2eLen + RPP - 1) \div RPP
I2eFirst ==                       \* the first node: the table gets its first page from the allocator
  /\ i2eStart = 0 /\ Candidate \in Page
  /\ owner' = [owner EXCEPT ![Candidate] = Idmap]
  /\ content' = [content EXCEPT ![Candidate] = Idmap]
  /\ next' = IF Candidate = next THEN next + 1 ELSE next
  /\ i2eStart' = Candidate /\ i2eLen' = 1
I2eAppend ==
  /\ i2eStart # 0 /\ i2eLen < MaxLen
  /\ LET loc == i2eStart + i2eLen \div RPP
         opens == i2eLen % RPP = 0
     IN IF Relocate /\ opens /\ loc \in Page /\ owner[loc] # Free
        THEN (* move the table: UsedPages + 1 consecutive pages at the mark *)
             LET ns == next
                 newp == ns..(ns + UsedPages)
                 oldp == i2eStart..(i2eStart + UsedPages - 1)
             IN /\ ns + UsedPages \in Page
                /\ owner' = [p \in Page |-> IF p \in newp THEN Idmap ELSE IF p \in oldp THEN Free ELSE owner[p]]
                /\ content' = [p \in Page |-> IF p \in newp THEN Idmap ELSE IF p \in oldp THEN Free ELSE content[p]]
                /\ next' = ns + UsedPages + 1
                /\ i2eStart' = ns
        ELSE /\ loc \in Page
             (* ensure_allocated: a free page becomes the table's, a used page stays whose it is *)
             /\ owner' = [owner EXCEPT ![loc] = IF @ = Free THEN Idmap ELSE @]
             /\ content' = [content EXCEPT ![loc] = Idmap]
             /\ next' = IF loc >= next THEN loc + 1 ELSE next
             /\ UNCHANGED i2eStart
  /\ i2eLen' = i2eLen + 1

Next == \/ \E s \in Others : Alloc(s)
        \/ \E s \in Others, p \in Page : WriteOwned(s, p) \/ FreeOwned(s, p)
        \/ I2eFirst \/ I2eAppend
Spec == Init /\ [][Next]_vars

(* C18: no page holds data of a structure other than the one it belongs to *)
ContentOwned == \A p \in Page : content[p] = owner[p]
(* the node table can be read back: its pages are its own *)
I2eReadable == i2eStart # 0 => \A k \in 0..(UsedPages - 1) : i2eStart + k \in Page /\ owner[i2eStart + k] = Idmap /\ content[i2eStart + k] = Idmap
(* the allocator never hands out pages beyond the mark, and nothing lives past it *)
MarkBounds == \A p \in Page : p >= next => owner[p] = Free
=============================================================================
