SPECIFICATION Spec
CONSTANTS Nodes = {1, 2}
 MaxOps = 5
 Backfill = TRUE
 AllLabels = TRUE
 NormaliseNumbers = FALSE
INVARIANT IndexTransparent
CHECK_DEADLOCK FALSE
