SPECIFICATION Spec
CONSTANTS MaxTx = 4
 MaxCrashes = 3
 OffsetPastBadCrc = TRUE
INVARIANT OpensAlways
INVARIANT SeesExactlyTheAcknowledged
INVARIANT NoJunkSurvivesOpen
CHECK_DEADLOCK FALSE
