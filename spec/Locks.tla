-------------------------------- MODULE Locks --------------------------------
(***************************************************************************)
(* Deadlock freedom of the engine's lock protocol (C35).                   *)
(* A program is the sequence of lock steps one public operation performs,  *)
(* as *observed* through the lock hooks while the operation ran alone      *)
(* (PROGRAMS, written by `nvx locks`): <<"acq", lock, mode>> and           *)
(* <<"rel", lock, mode>> with mode "lock" (Mutex), "read" or "write"       *)
(* (RwLock).  K threads each run one of the programs; TLC explores every   *)
(* choice of programs and every interleaving.                              *)
(* Lock semantics: a Mutex / write acquisition needs the lock free; a read *)
(* acquisition needs no writer holding it and - std's RwLock prefers       *)
(* writers - no other thread currently blocked in a write acquisition of   *)
(* that lock.  A thread re-acquiring a Mutex it holds blocks forever.      *)
(* Property: no reachable state in which some thread is unfinished and no  *)
(* thread can move (TLC's deadlock check; finished systems stutter).       *)
(***************************************************************************)
EXTENDS Naturals, Sequences, FiniteSets, TLC, Json, IOUtils

CONSTANT K
Progs == ndJsonDeserialize(IOEnv.PROGRAMS)
Thread == 1..K

VARIABLES choice, pc, held
vars == <<choice, pc, held>>

Init == /\ choice \in [Thread -> 1..Len(Progs)]
        /\ (\A t \in Thread : t < K => choice[t] <= choice[t + 1])     \* programs as a multiset
        /\ pc = [t \in Thread |-> 1]
        /\ held = {}                                                   \* set of <<thread, lock, mode>>

Steps(t) == Progs[choice[t]].steps
Finished(t) == pc[t] > Len(Steps(t))
Cur(t) == Steps(t)[pc[t]]
Holders(l) == {h \in held : h[2] = l}
WritersOf(l) == {h \in Holders(l) : h[3] # "read"}
(* t is blocked in an exclusive acquisition of l right now *)
WaitingWriter(t, l) ==
  ~Finished(t) /\ Cur(t)[1] = "acq" /\ Cur(t)[2] = l /\ Cur(t)[3] # "read" /\ Holders(l) # {}
CanAcquire(t, l, mode) ==
  IF mode = "read" THEN WritersOf(l) = {} /\ ~\E u \in Thread \ {t} : WaitingWriter(u, l)
  ELSE Holders(l) = {}

Step(t) ==
  /\ ~Finished(t)
  /\ LET s == Cur(t) IN
     IF s[1] = "acq" THEN
       /\ CanAcquire(t, s[2], s[3])
       /\ held' = held \cup {<<t, s[2], s[3]>>}
     ELSE
       /\ held' = held \ {<<t, s[2], s[3]>>}
  /\ pc' = [pc EXCEPT ![t] = @ + 1]
  /\ UNCHANGED choice

AllDone == \A t \in Thread : Finished(t)
Next == (\E t \in Thread : Step(t)) \/ (AllDone /\ UNCHANGED vars)
Spec == Init /\ [][Next]_vars /\ WF_vars(Next)
Terminates == <>AllDone
(* bookkeeping sanity: a finished thread holds nothing *)
ReleasedAtEnd == \A t \in Thread : Finished(t) => ~\E h \in held : h[1] = t

(***************************************************************************)
(* Any number of threads: the gate-aware lock-order argument.              *)
(* An edge says: some program, holding the set `held` of <<lock, mode>>,   *)
(* acquires `to`.  A potential deadlock of n threads is a cycle of edges   *)
(* e1 .. en in which thread i waits for a lock thread i+1 holds and the    *)
(* held sets are pairwise compatible (no common lock held exclusively by   *)
(* one of them: a common gate lock serialises the two and breaks the       *)
(* cycle).  Read/read on one lock is counted as blocking (conservative:    *)
(* a queued writer makes it so).  No such cycle => no reachable deadlock   *)
(* for any K (Havelund's Goodlock condition).  This is a certificate only: *)
(* a cycle here is decided by the explicit model above, not reported.      *)
(***************************************************************************)
HeldBefore(p, i) ==
  LET st == Progs[p].steps
      RECURSIVE H(_)
      H(j) == IF j = 0 THEN {}
              ELSE IF st[j][1] = "acq" THEN H(j - 1) \cup {<<st[j][2], st[j][3]>>}
              ELSE H(j - 1) \ {<<st[j][2], st[j][3]>>}
  IN H(i - 1)
Edges ==
  UNION {{[to |-> Progs[p].steps[i][2], tmode |-> Progs[p].steps[i][3], held |-> HeldBefore(p, i)]
          : i \in {j \in 1..Len(Progs[p].steps) : Progs[p].steps[j][1] = "acq" /\ HeldBefore(p, j) # {}}}
         : p \in 1..Len(Progs)}
Excl(m) == m # "read"
Compatible(e, f) == \A a \in e.held, b \in f.held : a[1] = b[1] => ~Excl(a[2]) /\ ~Excl(b[2])
WaitsFor(e, f) == \E h \in f.held : h[1] = e.to          \* e's thread wants a lock f's thread holds
SelfDeadlock == {e \in Edges : \E h \in e.held : h[1] = e.to /\ (Excl(h[2]) \/ Excl(e.tmode))}
RECURSIVE Grow(_, _)
Grow(cs, n) ==      \* valid chains of length n extending the valid chains cs of length n - 1
  UNION {{Append(c, e) : e \in {f \in Edges : WaitsFor(c[Len(c)], f) /\ \A i \in 1..Len(c) : Compatible(c[i], f)}} : c \in cs}
RECURSIVE CyclesUpTo(_, _, _)
CyclesUpTo(cs, n, max) ==
  LET closed == {c \in cs : WaitsFor(c[Len(c)], c[1])}
  IN IF closed # {} THEN closed
     ELSE IF n >= max \/ cs = {} THEN {}
     ELSE CyclesUpTo(Grow(cs, n + 1), n + 1, max)
LockNames == UNION {{Progs[p].steps[i][2] : i \in 1..Len(Progs[p].steps)} : p \in 1..Len(Progs)}
PotentialCycles == TLCEval(CyclesUpTo({<<e>> : e \in {f \in Edges : TRUE}}, 1, Cardinality(LockNames)))
OrderInit == choice = <<>> /\ pc = <<>> /\ held = {}
OrderSpec == OrderInit /\ [][UNCHANGED vars]_vars
NoSelfDeadlock == SelfDeadlock = {}
LockOrderCertificate ==
  LET cyc == PotentialCycles
  IN IF cyc = {} THEN PrintT(<<"LOCKORDER", "acyclic", Cardinality(Edges), Cardinality(LockNames)>>)
     ELSE PrintT(<<"LOCKORDER", "cyclic", ToJson(CHOOSE c \in cyc : TRUE)>>)
=============================================================================
