-------------------------------- MODULE ExtId --------------------------------
(***************************************************************************)
(* How node identities are allocated by CREATE (C32): the external id of   *)
(* the i-th node a statement creates is  counter_i + clock_i , where the   *)
(* per-statement counter starts at 0 and the clock is read again for every *)
(* node.  The clock may tick, stall or step backwards between two reads.   *)
(* A node whose external id is already taken makes the statement fail      *)
(* (WriteTxn::create_node rejects duplicates).                             *)
(* Property: every id is new and no statement fails because of allocation. *)
(* TLC shows it needs a clock that advances by at least the number of      *)
(* nodes the previous statement created; the behaviours (statement sizes   *)
(* and clock readings) are replayed on the real engine through the clock   *)
(* hook.                                                                   *)
(***************************************************************************)
EXTENDS Naturals, Sequences, FiniteSets, TLC, Json

CONSTANTS MaxStatements, MaxNodes, MaxClock, StepBack, History

VARIABLES clock, used, stmt, counter, size, failed, hist
vars == <<clock, used, stmt, counter, size, failed, hist>>

Init == /\ clock = 1 /\ used = {} /\ stmt = 0 /\ counter = 0 /\ size = 0 /\ failed = FALSE /\ hist = <<>>

Begin(n) ==     \* a new statement that will create n nodes
  /\ size = counter /\ stmt < MaxStatements /\ ~failed
  /\ stmt' = stmt + 1 /\ counter' = 0 /\ size' = n
  /\ hist' = IF History THEN Append(hist, [n |-> n, reads |-> <<>>]) ELSE hist
  /\ UNCHANGED <<clock, used, failed>>

CreateNode ==   \* read the clock, allocate, insert
  /\ counter < size /\ ~failed
  /\ LET id == counter + clock IN
     /\ failed' = (id \in used)
     /\ used' = used \cup {id}
  /\ counter' = counter + 1
  /\ hist' = IF History THEN [hist EXCEPT ![Len(hist)].reads = Append(@, clock)] ELSE hist
  /\ UNCHANGED <<clock, stmt, size>>

Tick == clock < MaxClock /\ clock' = clock + 1 /\ UNCHANGED <<used, stmt, counter, size, failed, hist>>
Back == StepBack /\ clock > 1 /\ clock' = clock - 1 /\ UNCHANGED <<used, stmt, counter, size, failed, hist>>
(* a stalled clock is simply no Tick between two reads *)

Finished == stmt = MaxStatements /\ counter = size
Next == (\E n \in 1..MaxNodes : Begin(n)) \/ CreateNode \/ Tick \/ Back \/ ((Finished \/ failed) /\ UNCHANGED vars)
Spec == Init /\ [][Next]_vars

NeverFails == ~failed
EmitReplay == (Finished \/ failed) => PrintT(<<"REPLAY", ToJson(hist)>>)
=============================================================================
