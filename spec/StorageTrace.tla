---------------------------- MODULE StorageTrace ----------------------------
(***************************************************************************)
(* Trace specification (monitor) for storage-level executions of the real  *)
(* engine.  One disjunct per recorded event; every disjunct is total: an   *)
(* observation the oracle GraphAbs rejects does not disable the action, it *)
(* emits a FINDING line, resynchronises the abstract state to what was     *)
(* observed and continues, so one defect yields one finding.               *)
(*                                                                         *)
(* Properties decided here (on every recorded step):                       *)
(*   C06 reads agree with the graph after every commit                     *)
(*   C07 aborted transactions leave no trace                               *)
(*   C05 compaction / checkpoint invisible                                 *)
(*   C04 reopen preserves content                                          *)
(*   C28 vacuum preserves the database                                     *)
(*   C01 acknowledged commits survive every crash image                    *)
(*   C02 every crash image opens and shows a committed prefix              *)
(*   C08 failed commits are all-or-nothing                                 *)
(***************************************************************************)
EXTENDS GraphAbs, Json, IOUtils, TLC, Integers, SequencesExt, FiniteSetsExt

Rec == ndJsonDeserialize(IOEnv.TRACE)

VARIABLES
  l,        \* next line of the trace
  g,        \* abstract graph the running process must show
  alts,     \* graphs that are also admissible after the next reopen (failed commits)
  hist,     \* hist[k]: abstract graph after the (k-1)-th started commit
  preLen,   \* Len(hist) before the operation in progress (acknowledged prefix)
  lastOp,   \* kind of the last operation event
  faulted,  \* the last operation ran under an injected fault
  gh        \* ghost bookkeeping used only to attribute findings to known causes

vars == <<l, g, alts, hist, preLen, lastOp, faulted, gh>>

GhInit ==
  [taints      |-> {},
   pendNodeTomb|-> FALSE,   \* a node was deleted since the last compaction
   pendEdgeTomb|-> FALSE,   \* a relationship living in a segment was deleted since
   pendRem     |-> FALSE,   \* a property whose value is still in a run was removed
   labelChg    |-> FALSE,   \* a label was added / removed after node creation
   labelCkpt   |-> FALSE,   \* ... and a compaction checkpointed it
   segKeys     |-> {},      \* relationship keys that live in segments
   treeNP      |-> {},      \* <<node,key>> whose value was sunk into the property tree
   treeEP      |-> {},      \* <<s,t,d,key>> likewise
   runEdges    |-> {},      \* relationship keys created since the last compaction
   deadKeys    |-> {},      \* relationship keys ever deleted
   runsEmpty   |-> TRUE,    \* no run is published (a close then rewrites the log)
   compactions |-> 0]

Init ==
  /\ l = 1 /\ g = EmptyGraph /\ alts = {} /\ hist = <<EmptyGraph>> /\ preLen = 1
  /\ lastOp = "none" /\ faulted = FALSE /\ gh = GhInit

Emit(f) == PrintT(<<"FINDING", ToJson(f)>>)

Finding(prop, kind, diff, detail) ==
  [prop |-> prop, at |-> l, ev |-> Rec[l].ev, after |-> lastOp, kind |-> kind,
   diff |-> SetToSeq(diff), taints |-> SetToSeq(gh.taints), detail |-> detail]

IsEvent(e) == l <= Len(Rec) /\ Rec[l].ev = e /\ l' = l + 1

PropOf(op) ==
  CASE op = "tx" -> "C06" [] op = "abort" -> "C07"
    [] op = "compact" -> "C05" [] op = "checkpoint" -> "C05"
    [] op = "reopen" -> "C04" [] op = "open" -> "C04" [] op = "vacuum" -> "C28"
    [] op = "create_index" -> "C15"
    [] OTHER -> "C06"

(***************************************************************************)
(* Ghost updates per operation (program order inside a transaction).       *)
(***************************************************************************)
GhOp(h, gr, op) ==
  CASE op[1] = "DelNode" ->
         [h EXCEPT !.pendNodeTomb = TRUE,
                   !.deadKeys = @ \cup {k \in RelKeys(gr) : k[1] = op[2] \/ k[3] = op[2]}]
    [] op[1] = "DelEdge" ->
         LET k == <<op[2], op[3], op[4]>> IN
         [h EXCEPT !.pendEdgeTomb = @ \/ (k \in h.segKeys),
                   !.deadKeys = @ \cup {k},
                   !.runEdges = @ \ {k}]
    [] op[1] = "CreateEdge" ->
         LET k == <<op[2], op[3], op[4]>> IN
         [h EXCEPT !.runEdges = @ \cup {k},
                   !.taints = IF k \in h.deadKeys THEN @ \cup {"edge_recreated"} ELSE @]
    [] op[1] = "RemNP" ->
         LET k == <<op[2], op[3]>> IN
         [h EXCEPT !.taints = IF k \in h.treeNP THEN @ \cup {"rem_in_tree"} ELSE @,
                   !.pendRem = @ \/ (\E x \in gr.np : x[1] = op[2] /\ x[2] = op[3])]
    [] op[1] = "RemEP" ->
         LET k == <<op[2], op[3], op[4], op[5]>> IN
         [h EXCEPT !.taints = IF k \in h.treeEP THEN @ \cup {"rem_in_tree"} ELSE @,
                   !.pendRem = @ \/ (\E x \in gr.ep : <<x[1], x[2], x[3], x[4]>> = k)]
    [] op[1] = "AddLabel" -> [h EXCEPT !.labelChg = TRUE]
    [] op[1] = "RemLabel" -> [h EXCEPT !.labelChg = TRUE]
    [] OTHER -> h

RunOps == {"CreateEdge", "DelEdge", "DelNode", "SetNP", "RemNP", "SetEP", "RemEP"}

RECURSIVE GhOps(_, _, _, _)
GhOps(h, gr, ops, i) ==
  IF i > Len(ops) THEN h
  ELSE LET h1 == GhOp(h, gr, ops[i])
           h2 == IF ops[i][1] \in RunOps THEN [h1 EXCEPT !.runsEmpty = FALSE] ELSE h1
       IN GhOps(h2, ApplyOp(gr, ops[i]), ops, i + 1)

GhCompact(h, gr) ==
  [h EXCEPT
     !.taints = @ \cup (IF h.pendNodeTomb THEN {"nodetomb_compacted"} ELSE {})
                  \cup (IF h.pendEdgeTomb THEN {"edgetomb_compacted"} ELSE {})
                  \cup (IF h.pendRem THEN {"rem_then_compact"} ELSE {})
                  \cup (IF h.runEdges = {} THEN {"edgefree_segment"} ELSE {}),
     !.labelCkpt = @ \/ h.labelChg,
     !.segKeys = @ \cup h.runEdges,
     !.runEdges = {},
     !.treeNP = @ \cup {<<x[1], x[2]>> : x \in gr.np},
     !.treeEP = @ \cup {<<x[1], x[2], x[3], x[4]>> : x \in gr.ep},
     !.pendNodeTomb = FALSE, !.pendEdgeTomb = FALSE, !.pendRem = FALSE,
     !.runsEmpty = TRUE,
     !.compactions = @ + 1]

GhReopen(h, how) ==
  LET ck == h.labelCkpt \/ (how = "close" /\ h.runsEmpty /\ h.labelChg) IN
  [h EXCEPT !.labelCkpt = ck,
            !.taints = @ \cup (IF ck THEN {"label_change_checkpointed"} ELSE {})]

(* a relationship is created and one of its endpoints deleted in the same transaction *)
SameTxDangling(ops) ==
  \E i, j \in DOMAIN ops :
     /\ j < i /\ ops[i][1] = "DelNode" /\ ops[j][1] = "CreateEdge"
     /\ (ops[j][2] = ops[i][2] \/ ops[j][4] = ops[i][2])

(* a label is removed and then added again on the same node in one transaction *)
SameTxLabelOrder(ops) ==
  \E i, j \in DOMAIN ops :
     /\ i < j /\ ops[i][1] = "RemLabel" /\ ops[j][1] = "AddLabel"
     /\ ops[i][2] = ops[j][2] /\ ops[i][3] = ops[j][3]

CreatedIds(gr, ops) ==
  LET n == Cardinality({i \in DOMAIN ops : ops[i][1] = "CreateNode"}) IN
  [i \in 1..n |-> gr.next + i - 1]

(***************************************************************************)
(* Events                                                                  *)
(***************************************************************************)
TReset ==
  /\ IsEvent("reset")
  /\ g' = EmptyGraph /\ alts' = {} /\ hist' = <<EmptyGraph>> /\ preLen' = 1
  /\ lastOp' = "none" /\ faulted' = FALSE /\ gh' = GhInit

TOpen ==
  /\ IsEvent("open")
  /\ IF Rec[l].res = "ok" THEN TRUE
     ELSE Emit(Finding("C04", "open-failed", {}, Rec[l].res))
  /\ lastOp' = "open"
  /\ UNCHANGED <<g, alts, hist, preLen, faulted, gh>>

TFaultBegin ==
  /\ IsEvent("fault_begin")
  /\ faulted' = TRUE
  /\ UNCHANGED <<g, alts, hist, preLen, lastOp, gh>>

TFaultInfo ==
  /\ IsEvent("fault_info")
  /\ UNCHANGED <<g, alts, hist, preLen, lastOp, faulted, gh>>

TSkip ==
  /\ IsEvent("skip")
  /\ UNCHANGED <<g, alts, hist, preLen, lastOp, faulted, gh>>

TTx ==
  /\ IsEvent("tx")
  /\ LET r == Rec[l] post == ApplyTx(g, r.ops) IN
     /\ preLen' = Len(hist)
     /\ lastOp' = "tx"
     /\ IF r.res = "ok"
        THEN /\ g' = post
             /\ alts' = {ApplyTx(a, r.ops) : a \in alts}
             /\ hist' = Append(hist, post)
             /\ gh' = LET h == GhOps(gh, g, r.ops, 1) IN
                      [h EXCEPT !.taints = @
                          \cup (IF SameTxDangling(r.ops) THEN {"edge_endpoint_deleted_same_tx"} ELSE {})
                          \cup (IF SameTxLabelOrder(r.ops) THEN {"label_rem_then_add_same_tx"} ELSE {})]
             /\ IF r.created = CreatedIds(g, r.ops) THEN TRUE
                ELSE Emit(Finding(IF alts # {} THEN "C08" ELSE "C32", "id-allocation", {}, ToString(r.created)))
        ELSE /\ g' = g
             /\ gh' = gh
             /\ IF faulted
                THEN \* C08: the commit may or may not have become durable
                     /\ alts' = alts \cup {post}
                     /\ hist' = Append(hist, post)
                ELSE /\ alts' = alts /\ hist' = hist
                     /\ Emit(Finding("C06", "commit-failed", {}, r.res))
     /\ faulted' = FALSE

TAbort ==
  /\ IsEvent("abort")
  /\ lastOp' = "abort" /\ preLen' = Len(hist)
  /\ UNCHANGED <<g, alts, hist, faulted, gh>>

TCompact ==
  /\ (IsEvent("compact") \/ IsEvent("checkpoint"))
  /\ LET r == Rec[l] IN
     /\ lastOp' = r.ev /\ preLen' = Len(hist)
     /\ IF r.res = "ok"
        THEN gh' = GhCompact(gh, g)
        ELSE /\ gh' = gh
             /\ IF faulted THEN TRUE ELSE Emit(Finding("C05", "compact-failed", {}, r.res))
     /\ faulted' = FALSE
     /\ UNCHANGED <<g, alts, hist>>

TCreateIndex ==
  /\ IsEvent("create_index")
  /\ lastOp' = "create_index" /\ preLen' = Len(hist)
  /\ IF Rec[l].res = "ok" THEN TRUE ELSE Emit(Finding("C15", "create-index-failed", {}, Rec[l].res))
  /\ UNCHANGED <<g, alts, hist, faulted, gh>>

TReopen ==
  /\ IsEvent("reopen")
  /\ LET r == Rec[l] IN
     /\ lastOp' = "reopen" /\ preLen' = Len(hist)
     /\ IF r.res = "ok" THEN TRUE
        ELSE Emit(Finding(IF alts # {} THEN "C08" ELSE "C04", "open-failed", {}, r.res))
     /\ IF r.close_res = "ok" \/ faulted THEN TRUE
        ELSE Emit(Finding("C04", "close-failed", {}, r.close_res))
     /\ gh' = GhReopen(gh, r.how)
     /\ faulted' = FALSE
     /\ UNCHANGED <<g, alts, hist>>

TVacuum ==
  /\ IsEvent("vacuum")
  /\ LET r == Rec[l] IN
     /\ lastOp' = "vacuum" /\ preLen' = Len(hist)
     /\ IF r.vacuum_res = "ok" THEN TRUE
        ELSE Emit(Finding("C28", "vacuum-failed", {}, r.vacuum_res))
     /\ IF r.res = "ok" THEN TRUE
        ELSE Emit(Finding("C28", "open-failed", {}, r.res))
     /\ gh' = GhReopen(gh, "close")
     /\ UNCHANGED <<g, alts, hist, faulted>>

(* A dump is judged against the graph the running process must show; right  *)
(* after a reopen the alternatives left by failed commits are admissible.   *)
TDump ==
  /\ IsEvent("dump")
  /\ LET d == Rec[l].d
         diff == Diff(g, d)
         ok == {a \in alts : Diff(a, d) = {}}
     IN
     IF diff = {}
     THEN /\ g' = g /\ hist' = hist
          /\ alts' = IF lastOp = "reopen" THEN {} ELSE alts
     ELSE IF lastOp = "reopen" /\ ok # {}
     THEN /\ g' = CHOOSE a \in ok : TRUE
          /\ hist' = [hist EXCEPT ![Len(hist)] = g']
          /\ alts' = {}
     ELSE /\ Emit(Finding(IF alts # {} THEN "C08" ELSE PropOf(lastOp), "dump-mismatch", diff, ""))
          /\ g' = FromDump(g, d)
          /\ hist' = [hist EXCEPT ![Len(hist)] = g']
          /\ alts' = IF lastOp = "reopen" THEN {} ELSE alts
  /\ UNCHANGED <<preLen, lastOp, faulted, gh>>

(* Crash image of the operation just executed: opened by the real recovery  *)
(* code, dumped, extended by one transaction, reopened and dumped again.    *)
Matching(d) == {k \in 1..Len(hist) : Diff(hist[k], d) = {}}

(* Issues of the follow-up (commit one more transaction, reopen) when the   *)
(* recovered state is taken to be hist[k].                                  *)
FuIssues(r, k) ==
  LET want == ApplyTx(hist[k], r.fu.ops) IN
  IF r.fu.res # "ok" THEN {<<"C01", "followup-commit-failed", {}, r.fu.res>>}
  ELSE (IF Diff(want, r.fu.d1) = {} THEN {}
        ELSE {<<"C02", "followup-mismatch", Diff(want, r.fu.d1), "">>})
       \cup
       (IF r.fu.reopen # "ok" THEN {<<"C01", "followup-reopen-failed", {}, r.fu.reopen>>}
        ELSE IF Diff(want, r.fu.d2) = {} THEN {}
        ELSE {<<"C01", "followup-lost", Diff(want, r.fu.d2), "">>})

TCrash ==
  /\ IsEvent("crash")
  /\ LET r == Rec[l]
         tailed == "tail" \in DOMAIN r            \* C17: a hostile log tail was added to the image
         pOpen == IF tailed THEN "C17" ELSE "C02"
         pAck == IF tailed THEN "C17" ELSE "C01"
         \* damaging the last byte of the log may take the last whole transaction with it
         need == IF tailed /\ r.tail = "bitflip" THEN Max({1, preLen - 1}) ELSE preLen
     IN
     IF r.open # "ok"
     THEN Emit(Finding(pOpen, "open-failed", {}, r.open))
     ELSE LET K == Matching(r.d) IN
          IF K = {}
          THEN /\ Emit(Finding(pOpen, "not-a-prefix", Diff(hist[Len(hist)], r.d), ""))
               (* not a prefix at all: it still violates C01 when something every state from the acknowledged one on  *)
               (* contains (so nothing later deleted it) is absent from what was read back                          *)
               /\ LET o == DumpSets(r.d)
                      kept(i) == {x \in Expect(hist[need])[i] : \A k \in need..Len(hist) : x \in Expect(hist[k])[i]}
                      lost == {i \in Interfaces : kept(i) \ o[i] # {}}
                  IN IF lost = {} THEN TRUE
                     ELSE Emit(Finding(pAck, "lost-acked", {i \o ":missing" : i \in lost}, "image matches no prefix"))
          ELSE LET Kgood == {k \in K : FuIssues(r, k) = {}}
                   k == IF Kgood # {} THEN Max(Kgood) ELSE Max(K)
               IN
               /\ IF k >= need THEN TRUE
                  ELSE Emit(Finding(pAck, "lost-acked", Diff(hist[preLen], r.d), ""))
               /\ \A i \in FuIssues(r, k) : Emit(Finding(IF tailed THEN "C17" ELSE i[1], i[2], i[3], i[4]))
  /\ UNCHANGED <<g, alts, hist, preLen, lastOp, faulted, gh>>

Next ==
  \/ TReset \/ TOpen \/ TTx \/ TAbort \/ TCompact \/ TCreateIndex \/ TReopen \/ TVacuum
  \/ TDump \/ TCrash \/ TFaultBegin \/ TFaultInfo \/ TSkip

Spec == Init /\ [][Next]_vars

(* Every line of the trace was consumed (the monitor is total).            *)
TraceAccepted ==
  LET d == TLCGet("stats").diameter IN
  IF d - 1 = Len(Rec) THEN TRUE
  ELSE Print(<<"UNCONSUMED", d, Len(Rec), IF d <= Len(Rec) THEN Rec[d].ev ELSE "eof">>, FALSE)

(* The abstract state the monitor carries is always a well-formed graph.   *)
MonitorWellFormed == WellFormed(g)
=============================================================================
