----------------------------- MODULE BTreeTrace -----------------------------
(***************************************************************************)
(* Trace specification for executions of the real B-tree (C26).            *)
(* Oracle: a sorted multimap -- the multiset of live <<key,payload,stamp>> *)
(* triples.  After every recorded step:                                    *)
(*   scan     = the live pairs, each exactly once, in non-decreasing key   *)
(*              order;                                                     *)
(*   lookup k = payload of the most recently inserted live entry of k;     *)
(*   delete of a stored pair reports "found" (and the next scan shows that *)
(*              exactly that pair is gone).                                *)
(* Total monitor: a rejected observation emits a FINDING and continues.    *)
(* Ghost: whether two live entries ever shared a key (the cause signature  *)
(* of the known findings).                                                 *)
(***************************************************************************)
EXTENDS Integers, Sequences, FiniteSets, TLC, Json, IOUtils, SequencesExt

Rec == ndJsonDeserialize(IOEnv.TRACE)

VARIABLES l, live, stamp, dup, lastop

vars == <<l, live, stamp, dup, lastop>>

Init == l = 1 /\ live = {} /\ stamp = 1 /\ dup = FALSE /\ lastop = "none"

Emit(f) == PrintT(<<"FINDING", ToJson(f)>>)
Finding(kind, detail) ==
  [prop |-> "C26", at |-> l, ev |-> Rec[l].ev, after |-> lastop, kind |-> kind, diff |-> <<>>,
   taints |-> IF dup THEN <<"equal_keys">> ELSE <<>>, detail |-> detail]

IsEvent(e) == l <= Len(Rec) /\ Rec[l].ev = e /\ l' = l + 1

TReset ==
  /\ IsEvent("reset")
  /\ live' = {} /\ stamp' = 1 /\ dup' = FALSE /\ lastop' = "none"

TOp ==
  /\ IsEvent("op")
  /\ LET r == Rec[l] IN
     /\ lastop' = r.op
     /\ CASE r.op = "ins" ->
               /\ live' = live \cup {<<r.k, r.p, stamp>>}
               /\ stamp' = stamp + 1
               /\ dup' = (dup \/ \E e \in live : e[1] = r.k)
               /\ IF r.res = "ok" THEN TRUE ELSE Emit(Finding("insert-failed", r.res))
          [] r.op = "del" ->
               LET stored == \E e \in live : e[1] = r.k /\ e[2] = r.p IN
               /\ live' = {e \in live : ~(e[1] = r.k /\ e[2] = r.p)}
               /\ UNCHANGED <<stamp, dup>>
               /\ IF (stored /\ r.res = "found") \/ (~stored /\ r.res = "missed") THEN TRUE
                  ELSE Emit(Finding("delete-result", r.res))
          [] OTHER ->
               /\ UNCHANGED <<live, stamp, dup>>
               /\ IF r.res = "ok" THEN TRUE ELSE Emit(Finding("reopen-failed", r.res))

Newest(k) ==
  LET es == {e \in live : e[1] = k} IN
  (CHOOSE e \in es : \A f \in es : f[3] <= e[3])[2]

TObs ==
  /\ IsEvent("obs")
  /\ LET r == Rec[l]
         s == r.scan
         pairs == {<<e[1], e[2]>> : e \in live}
         seen == {<<s[i][1], s[i][2]>> : i \in 1..Len(s)}
         sorted == \A i \in 1..(Len(s) - 1) : s[i][1] <= s[i + 1][1]
         keysLive == {e[1] : e \in live}
         lk == {<<r.lookups[i][1], r.lookups[i][2]>> : i \in 1..Len(r.lookups)}
         want == {<<k, Newest(k)>> : k \in keysLive}
     IN
     /\ IF r.err = "" THEN TRUE ELSE Emit(Finding("read-error", r.err))
     /\ IF seen = pairs /\ Len(s) = Cardinality(pairs) THEN TRUE
        ELSE Emit(Finding("scan-mismatch",
                          ToString([missing |-> pairs \ seen, extra |-> seen \ pairs, len |-> Len(s)])))
     /\ IF sorted THEN TRUE ELSE Emit(Finding("scan-unsorted", ""))
     /\ IF lk = want THEN TRUE
        ELSE Emit(Finding("lookup-not-newest", ToString([missing |-> want \ lk, extra |-> lk \ want])))
     \* resynchronise to what a scan shows so that one defect yields one finding
     /\ live' = IF seen = pairs THEN live
                ELSE {e \in live : <<e[1], e[2]>> \in seen}
                     \cup {<<x[1], x[2], 0>> : x \in seen \ pairs}
  /\ UNCHANGED <<stamp, dup, lastop>>

Next == TReset \/ TOp \/ TObs
Spec == Init /\ [][Next]_vars

TraceAccepted ==
  LET d == TLCGet("stats").diameter IN
  IF d - 1 = Len(Rec) THEN TRUE ELSE Print(<<"UNCONSUMED", d, Len(Rec)>>, FALSE)
=============================================================================
