SPECIFICATION Spec
CONSTANTS MaxTx = 4
 WalFirst = FALSE
 CompactDuring = TRUE
INVARIANT LiveRecoverable
INVARIANT BackupConsistent
CHECK_DEADLOCK FALSE
