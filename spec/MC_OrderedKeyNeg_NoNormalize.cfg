SPECIFICATION Spec
CONSTANT NormalizeNegZero = FALSE
INVARIANT OrderPreserved
INVARIANT PrefixFree
