----------------------------- MODULE CypherUpdate -----------------------------
(***************************************************************************)
(* Reference semantics of Cypher update statements (C12, and the oracle of *)
(* C13 / C14 / C24): CREATE, MERGE (ON CREATE / ON MATCH), SET (property,  *)
(* map replace, map merge, labels), REMOVE, DELETE / DETACH DELETE after   *)
(* MATCH / UNWIND / WITH prefixes, clause at a time over the rows, on the  *)
(* plain property graph of CypherSem.                                      *)
(*                                                                         *)
(* statement = [parts |-> <<read part..>>, updates |-> <<clause..>>]       *)
(*   clause = [t |-> "create", pats]                                       *)
(*          | [t |-> "merge", pat, oncreate |-> <<item..>>, onmatch]       *)
(*          | [t |-> "set", items]   | [t |-> "remove", items]             *)
(*          | [t |-> "delete", detach, vars]                               *)
(*   item   = [k |-> "prop", var, key, e] | [k |-> "label", var, labels]   *)
(*          | [k |-> "map", var, e, merge]                                 *)
(*   create / merge patterns: nodes [v, labels, props <<[key, expr]>>],    *)
(*          rels [v, types <<type>>, tcps <<code points>>, dir, props]     *)
(* Outcome: [ok |-> TRUE, g |-> graph] or [ok |-> FALSE, why |-> ..]; a    *)
(* failed statement leaves the graph as it was.                            *)
(***************************************************************************)
EXTENDS CypherSem

(***************************************************************************)
(* Graph surgery                                                           *)
(***************************************************************************)
MaxId(G) == IF Len(G.nodes) = 0 THEN -1
            ELSE LET ids == {G.nodes[i].id : i \in 1..Len(G.nodes)} IN CHOOSE m \in ids : \A x \in ids : x <= m
SetProp(props, k, v) ==
  IF IsNull(v) THEN SelectSeq(props, LAMBDA p : p[1] # k)
  ELSE IF \E i \in 1..Len(props) : props[i][1] = k
       THEN [i \in 1..Len(props) |-> IF props[i][1] = k THEN <<k, v>> ELSE props[i]]
       ELSE Append(props, <<k, v>>)
RECURSIVE SetProps(_, _, _)
SetProps(props, kvs, i) == IF i > Len(kvs) THEN props ELSE SetProps(SetProp(props, kvs[i][1], kvs[i][2]), kvs, i + 1)
UpdNode(G, id, Fn(_)) ==
  [G EXCEPT !.nodes = [i \in 1..Len(G.nodes) |-> IF G.nodes[i].id = id THEN Fn(G.nodes[i]) ELSE G.nodes[i]]]
UpdRel(G, j, Fn(_)) == [G EXCEPT !.rels = [i \in 1..Len(G.rels) |-> IF i = j THEN Fn(G.rels[i]) ELSE G.rels[i]]]
AddLabels(labels, ls) ==
  labels \o SelectSeq(ls, LAMBDA x : ~\E i \in 1..Len(labels) : labels[i] = x)
DelLabels(labels, ls) == SelectSeq(labels, LAMBDA x : ~\E i \in 1..Len(ls) : ls[i] = x)
LiveRels(G) == {j \in 1..Len(G.rels) : ~G.rels[j].dead}
Incident(G, id) == {j \in LiveRels(G) : G.rels[j].src = id \/ G.rels[j].dst = id}
NodeLive(G, id) == \E i \in 1..Len(G.nodes) : G.nodes[i].id = id

(* a map value (tagged) as a sequence of <<key string, value>>: keys come as code points, *)
(* the generators put the key strings next to them in the AST (item.keys)                  *)
(* rd = [mode, g0]: mode "live" evaluates expressions on the current graph (the semantics);   *)
(* "stmt" on the pre-statement graph, "clause" on the graph at the start of the clause - two  *)
(* alternative semantics used only to attribute divergences, never to accept them             *)
RG(rd, G) == IF rd.mode = "live" THEN G ELSE rd.g0
EvalKVs(rd, G, r, kvs) == [i \in 1..Len(kvs) |-> <<kvs[i][1], Eval(RG(rd, G), r, kvs[i][2])>>]

(***************************************************************************)
(* SET / REMOVE items                                                      *)
(***************************************************************************)
ApplyItem(rd, G, r, it) ==
  LET v == r[it.var] IN
  IF IsNull(v) THEN G          \* nothing to update on a null binding (OPTIONAL MATCH)
  ELSE IF v[1] = "node" /\ ~NodeLive(G, v[2]) THEN G
  ELSE CASE it.k = "prop" ->
              LET val == Eval(RG(rd, G), r, it.e) IN
              IF v[1] = "node" THEN UpdNode(G, v[2], LAMBDA n : [n EXCEPT !.props = SetProp(@, it.key, val)])
              ELSE UpdRel(G, v[3], LAMBDA e : [e EXCEPT !.props = SetProp(@, it.key, val)])
         [] it.k = "map" ->
              LET kvs == EvalKVs(rd, G, r, it.kvs)
                  base(p) == IF it.merge THEN p ELSE <<>>
              IN IF v[1] = "node" THEN UpdNode(G, v[2], LAMBDA n : [n EXCEPT !.props = SetProps(base(@), kvs, 1)])
                 ELSE UpdRel(G, v[3], LAMBDA e : [e EXCEPT !.props = SetProps(base(@), kvs, 1)])
         [] it.k = "label" -> UpdNode(G, v[2], LAMBDA n : [n EXCEPT !.labels = AddLabels(@, it.labels)])
         [] it.k = "remprop" ->
              IF v[1] = "node" THEN UpdNode(G, v[2], LAMBDA n : [n EXCEPT !.props = SetProp(@, it.key, Null)])
              ELSE UpdRel(G, v[3], LAMBDA e : [e EXCEPT !.props = SetProp(@, it.key, Null)])
         [] it.k = "remlabel" -> UpdNode(G, v[2], LAMBDA n : [n EXCEPT !.labels = DelLabels(@, it.labels)])
RECURSIVE ApplyItems(_, _, _, _, _)
ApplyItems(rd, G, r, items, i) == IF i > Len(items) THEN G ELSE ApplyItems(rd, ApplyItem(rd, G, r, items[i]), r, items, i + 1)

(***************************************************************************)
(* CREATE of one pattern for one row: returns [g, row]                     *)
(***************************************************************************)
RECURSIVE CreateNodes(_, _, _, _, _)
CreateNodes(rd, G, r, pat, i) ==    \* bind / create the pattern's nodes left to right
  IF i > Len(pat.nodes) THEN [g |-> G, row |-> r, ids |-> <<>>]
  ELSE LET np == pat.nodes[i] IN
       IF Bound(r, np.v) THEN
         LET rest == CreateNodes(rd, G, r, pat, i + 1) IN [rest EXCEPT !.ids = <<r[np.v][2]>> \o @]
       ELSE
         LET id == MaxId(G) + 1
             kvs == EvalKVs(rd, G, r, np.props)
             node == [id |-> id, labels |-> np.labels, props |-> SetProps(<<>>, kvs, 1)]
             G1 == [G EXCEPT !.nodes = Append(@, node)]
             rest == CreateNodes(rd, G1, Bind(r, np.v, NodeV(id)), pat, i + 1)
         IN [rest EXCEPT !.ids = <<id>> \o @]
RECURSIVE CreateRels(_, _, _, _, _, _)
CreateRels(rd, G, r, pat, ids, i) ==
  IF i > Len(pat.rels) THEN [g |-> G, row |-> r]
  ELSE LET rp == pat.rels[i]
           a == ids[i] b == ids[i + 1]
           src == IF rp.dir = "in" THEN b ELSE a
           dst == IF rp.dir = "in" THEN a ELSE b
           rel == [src |-> src, type |-> rp.types[1], tcp |-> rp.tcps[1], dst |-> dst,
                   props |-> SetProps(<<>>, EvalKVs(rd, G, r, rp.props), 1), dead |-> FALSE]
           G1 == [G EXCEPT !.rels = Append(@, rel)]
       IN CreateRels(rd, G1, Bind(r, rp.v, RelV(G1, Len(G1.rels))), pat, ids, i + 1)
CreatePattern(rd, G, r, pat) ==
  LET n == CreateNodes(rd, G, r, pat, 1) IN CreateRels(rd, n.g, n.row, pat, n.ids, 1)

(***************************************************************************)
(* Clauses over all rows: state = [ok, g, rows]                            *)
(***************************************************************************)
RECURSIVE FoldCreate(_, _, _, _, _, _)
FoldCreate(rd, G, rows, pats, i, acc) ==   \* rows one after the other, every pattern of the clause per row
  IF i > Len(rows) THEN [ok |-> TRUE, g |-> G, rows |-> acc]
  ELSE LET step(st, pat) == CreatePattern(rd, st.g, st.row, pat)
           RECURSIVE allp(_, _)
           allp(st, k) == IF k > Len(pats) THEN st ELSE allp(step(st, pats[k]), k + 1)
           done == allp([g |-> G, row |-> rows[i]], 1)
       IN FoldCreate(rd, done.g, rows, pats, i + 1, Append(acc, done.row))

RECURSIVE FoldItems(_, _, _, _, _)
FoldItems(rd, G, rows, items, i) ==
  IF i > Len(rows) THEN G ELSE FoldItems(rd, ApplyItems(rd, G, rows[i], items, 1), rows, items, i + 1)

(* DELETE: every named entity of every row; a node that still has relationships which are not *)
(* deleted by the same clause makes the statement fail unless DETACH                        *)
DeleteClause(G, rows, c) ==
  LET vals == {rows[i][c.vars[k]] : i \in 1..Len(rows), k \in 1..Len(c.vars)}
      nodeIds == {v[2] : v \in {x \in vals : x[1] = "node"}}
      relIdx == {v[3] : v \in {x \in vals : x[1] = "rel"}}
      attached == UNION {Incident(G, id) : id \in nodeIds}
      kill == relIdx \cup (IF c.detach THEN attached ELSE {})
  IN IF ~c.detach /\ ~(attached \subseteq relIdx) THEN [ok |-> FALSE, why |-> "delete-connected-node"]
     ELSE [ok |-> TRUE, rows |-> rows,
           g |-> [G EXCEPT !.nodes = SelectSeq(@, LAMBDA n : n.id \notin nodeIds),
                           !.rels = [j \in 1..Len(@) |-> IF j \in kill THEN [@[j] EXCEPT !.dead = TRUE] ELSE @[j]]]]

(* MERGE of a single-node pattern or of one relationship between bound nodes, row by row *)
MergeMatches(G, r, pat) ==
  MapSeq(MatchPattern(G, pat, [row |-> r, used |-> {}]), LAMBDA st : st.row)
RECURSIVE FoldMerge(_, _, _, _, _, _)
FoldMerge(rd, G, rows, c, i, acc) ==
  IF i > Len(rows) THEN [ok |-> TRUE, g |-> G, rows |-> acc]
  ELSE LET ms == MergeMatches(IF "gm" \in DOMAIN rd THEN rd.gm ELSE G, rows[i], c.mpat)
       IN IF Len(ms) > 0
          THEN LET RECURSIVE each(_, _)
                   each(g, k) == IF k > Len(ms) THEN g ELSE each(ApplyItems(rd, g, ms[k], c.onmatch, 1), k + 1)
               IN FoldMerge(rd, each(G, 1), rows, c, i + 1, acc \o ms)
          ELSE LET cr == CreatePattern(rd, G, rows[i], c.pat)
               IN FoldMerge(rd, ApplyItems(rd, cr.g, cr.row, c.oncreate, 1), rows, c, i + 1, Append(acc, cr.row))

ApplyClause(rd0, st, c) ==
  IF ~st.ok THEN st
  ELSE LET rd == IF rd0.mode = "clause" THEN [rd0 EXCEPT !.g0 = st.g] ELSE rd0 IN
       CASE c.t = "create" -> FoldCreate(rd, st.g, st.rows, c.pats, 1, <<>>)
         [] c.t = "set" -> [st EXCEPT !.g = FoldItems(rd, st.g, st.rows, c.items, 1)]
         [] c.t = "remove" -> [st EXCEPT !.g = FoldItems(rd, st.g, st.rows, c.items, 1)]
         [] c.t = "delete" -> DeleteClause(st.g, st.rows, c)
         [] c.t = "merge" -> FoldMerge(rd, st.g, st.rows, c, 1, <<>>)
RECURSIVE ApplyClauses(_, _, _, _)
ApplyClauses(rd, st, cs, i) == IF i > Len(cs) THEN st ELSE ApplyClauses(rd, ApplyClause(rd, st, cs[i]), cs, i + 1)

ApplyStmtU(G, stmt, mode, rev) ==
  LET rows == RunParts(G, << EmptyRow >>, stmt.parts, 1, FALSE) IN
  ApplyClauses([mode |-> mode, g0 |-> G],
               [ok |-> TRUE, g |-> G, rows |-> IF rev THEN Reverse(rows) ELSE rows], stmt.updates, 1)
(* rows matched on Gm, effects applied to Ga: what a statement of an explicit transaction does *)
(* when it is evaluated against the committed snapshot instead of the transaction's own state *)
(* (an alternative semantics used only to attribute divergences)                              *)
ApplyStmtSplit(Gm, Ga, stmt) ==
  ApplyClauses([mode |-> "live", g0 |-> Ga, gm |-> Gm],     \* MERGE looks for its pattern in Gm as well
               [ok |-> TRUE, g |-> Ga, rows |-> RunParts(Gm, << EmptyRow >>, stmt.parts, 1, FALSE)], stmt.updates, 1)
(* the semantics: expressions read the graph as modified so far by the statement *)
ApplyStmt(G, stmt) == ApplyStmtU(G, stmt, "live", FALSE)
(***************************************************************************)
(* Graph equality up to node identity: bags of node signatures and of      *)
(* relationship signatures (type, endpoint signatures, properties)         *)
(***************************************************************************)
PropsSame(p, q) ==
  /\ Len(p) = Len(q)
  /\ \A i \in 1..Len(p) : \E j \in 1..Len(q) : p[i][1] = q[j][1] /\ Same(p[i][2], q[j][2])
LabelsSame(a, b) ==
  /\ \A i \in 1..Len(a) : \E j \in 1..Len(b) : a[i] = b[j]
  /\ \A j \in 1..Len(b) : \E i \in 1..Len(a) : a[i] = b[j]
NodeSigSame(n, m) == LabelsSame(n.labels, m.labels) /\ PropsSame(n.props, m.props)
RelSigSame(G, e, H, f) ==
  /\ e.type = f.type /\ PropsSame(e.props, f.props)
  /\ NodeSigSame(NodeRec(G, e.src), NodeRec(H, f.src)) /\ NodeSigSame(NodeRec(G, e.dst), NodeRec(H, f.dst))
LiveRelSeq(G) == SelectSeq(G.rels, LAMBDA e : ~e.dead)
GraphDiff(G, H) ==    \* "" when the graphs are equal up to node identity
  LET gn == G.nodes hn == H.nodes ge == LiveRelSeq(G) he == LiveRelSeq(H)
      nodeCnt(S, n) == Cardinality({i \in 1..Len(S) : NodeSigSame(S[i], n)})
      dangling(X, es) == \E i \in 1..Len(es) : ~NodeLive(X, es[i].src) \/ ~NodeLive(X, es[i].dst)
  IN IF Len(gn) # Len(hn) THEN "node-count"
     ELSE IF \E i \in 1..Len(gn) : nodeCnt(gn, gn[i]) # nodeCnt(hn, gn[i]) THEN "node-signatures"
     ELSE IF dangling(G, ge) \/ dangling(H, he) THEN "dangling-relationship"
     ELSE IF Len(ge) # Len(he) THEN "relationship-count"
     ELSE IF \E i \in 1..Len(ge) :
               Cardinality({k \in 1..Len(ge) : RelSigSame(G, ge[k], G, ge[i])}) #
               Cardinality({k \in 1..Len(he) : RelSigSame(H, he[k], G, ge[i])}) THEN "relationship-signatures"
     ELSE ""
(* An alternative reading used only to attribute divergences: relationship properties are stored per (source, type,   *)
(* target) key, so parallel relationships with one key show one shared property record (later writes override).     *)
RECURSIVE GroupProps(_, _, _, _)
GroupProps(G, e, j, acc) ==
  IF j > Len(G.rels) THEN acc
  ELSE GroupProps(G, e, j + 1,
                  IF ~G.rels[j].dead /\ G.rels[j].src = e.src /\ G.rels[j].type = e.type /\ G.rels[j].dst = e.dst
                  THEN SetProps(acc, G.rels[j].props, 1) ELSE acc)
SharedRelProps(G) ==
  [G EXCEPT !.rels = [i \in 1..Len(G.rels) |-> IF G.rels[i].dead THEN G.rels[i]
                                                 ELSE [G.rels[i] EXCEPT !.props = GroupProps(G, G.rels[i], 1, <<>>)]]]
(* a statement whose outcome depends on the order of its rows has no single predicted graph *)
OrderDependent(G, stmt) ==
  LET a == ApplyStmtU(G, stmt, "live", FALSE) b == ApplyStmtU(G, stmt, "live", TRUE) IN
  a.ok # b.ok \/ (a.ok /\ GraphDiff(a.g, b.g) # "")


(***************************************************************************)
(* C14 at the level of a dump: every relationship joins two listed nodes,  *)
(* and the incoming view lists exactly the relationships of the outgoing   *)
(* view.  "" when well formed.                                             *)
(***************************************************************************)
DumpIllFormed(G) ==
  LET es == LiveRelSeq(G)
      key(e) == <<e.src, e.type, e.dst>>
      outs == [i \in 1..Len(es) |-> key(es[i])]
      inn == G.inn
      cnt(s, x) == Cardinality({i \in 1..Len(s) : s[i] = x})
  IN IF \E i \in 1..Len(es) : ~NodeLive(G, es[i].src) \/ ~NodeLive(G, es[i].dst) THEN "dangling-relationship"
     ELSE IF \E i \in 1..Len(inn) : ~NodeLive(G, inn[i][1]) \/ ~NodeLive(G, inn[i][3]) THEN "dangling-relationship-incoming-view"
     ELSE IF Len(outs) # Len(inn) \/ \E i \in 1..Len(outs) : cnt(outs, outs[i]) # cnt(inn, outs[i]) THEN "directions-disagree"
     ELSE ""
=============================================================================
