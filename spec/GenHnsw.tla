------------------------------ MODULE GenHnsw ------------------------------
(* Hnsw as a generator: behaviours with their insertion history and the model's own answers *)
EXTENDS Hnsw, Json
VARIABLE hist
GInit == Init /\ hist = <<>>
GNext == \E id \in Ids, v \in Choices, level \in 0..MaxLevel :
            Insert(id, v, level) /\ hist' = Append(hist, <<id, v, level>>)
GSpec == GInit /\ [][GNext]_<<vars, hist>>
Line4 == {<<0>>, <<1>>, <<3>>, <<7>>}
QLine == {<<0>>, <<2>>, <<6>>}
Grid == {<<0, 0>>, <<1, 0>>, <<0, 2>>, <<3, 3>>, <<0, 0>>}
QGrid == {<<0, 1>>, <<2, 2>>}
Answers == [q \in Queries |-> [k \in 1..K |-> Search(q, k)]]
Emit == ops = MaxOps =>
  PrintT(<<"REPLAY", ToJson([ops |-> hist, m |-> M,
                             answers |-> {<<q, k, Search(q, k)>> : q \in Queries, k \in 1..K}])>>)
=============================================================================
