SPECIFICATION SSpec
CONSTANTS
  MaxNodes = 0
  Vals = {}
  MaxTx = 1000
  MaxCompact = 1000
  MaxCrash = 1
  MaxReopen = 1000
  CrashKinds = {"process", "power"}
  AllowDelNode = FALSE
  AllowDelEdge = FALSE
  AllowRem = FALSE
  AllowLabel = FALSE
  AllowRecreate = FALSE
  AllowOverwrite = TRUE
  TruncateTornTail = TRUE
  StatsAllocSyncs = TRUE
  SyncBeforeManifest = TRUE
  FsyncOnCommit = TRUE
INVARIANTS PrintQuiescent PrintOutcome
CHECK_DEADLOCK FALSE
