---------------------------- MODULE CypherTrace ----------------------------
(***************************************************************************)
(* Trace specification (monitor) for value-level Cypher executions of the  *)
(* real engine.  The driver `nvx cypher` records, per case, the parameters *)
(* as the engine received them and the rows / error it returned.  One      *)
(* disjunct per case kind; every disjunct is total: an observation the     *)
(* oracle CypherVal rejects emits a FINDING line and the monitor goes on.  *)
(*                                                                         *)
(*   truth3, cmp, arith  -> C23   expression laws                          *)
(*   order               -> C20   ORDER BY / SKIP / LIMIT                  *)
(*   agg                 -> C21   aggregates                               *)
(*   err                 -> C22   runtime errors are not swallowed         *)
(*   part                -> C19   WHERE partitions rows                    *)
(*   read                -> C11   read queries against the reference       *)
(***************************************************************************)
EXTENDS CypherUpdate, Json, IOUtils

Rec == ndJsonDeserialize(IOEnv.TRACE)

VARIABLES l,    \* next line of the trace
          ovf,  \* overflow class first observed in this session ("" = none yet)
          gr,   \* graph of the current session as dumped through the storage read API
          ixpre, \* ghost: ids of the nodes that existed when the session's index was created
          firstlab, \* ghost: <<id, label>> the label written first in the CREATE that made the node
          extids \* ghost: external ids handed out so far under the scripted clock (counter + reading)
vars == <<l, ovf, gr, ixpre, firstlab, extids>>

NoGraph == [nodes |-> <<>>, rels |-> <<>>]
Init == l = 1 /\ ovf = "" /\ gr = NoGraph /\ ixpre = {} /\ firstlab = {} /\ extids = {}

Emit(f) == PrintT(<<"FINDING", ToJson(f)>>)
Finding(prop, kind, detail) ==
  [prop |-> prop, at |-> l, cid |-> Rec[l].cid, sid |-> Rec[l].sid, case |-> Rec[l].kind,
   kind |-> kind, detail |-> detail]
Report(fs) == \A i \in 1..Len(fs) : Emit(fs[i])

IsCase(k) == l <= Len(Rec) /\ Rec[l].ev = "case" /\ Rec[l].kind = k
Res == Rec[l].res
Rows == Rec[l].res.rows
NRows == Len(Rec[l].res.rows)
Meta == Rec[l].meta
Param(i) == Rec[l].params[i][2]          \* i-th parameter (sorted by name) as a tagged value
IsRows == Rec[l].res.out = "rows"

SmallInt(v) == SmallBig(v[2])            \* an <<"int", BIG>> known to be small
Bool3(c) == IF c < 0 THEN "lt" ELSE IF c > 0 THEN "gt" ELSE "eq"
SeqToStr(s) == ToString(s)

(* sequences -> findings helper: keep the first n *)
FirstN(s, n) == IF Len(s) <= n THEN s ELSE SubSeq(s, 1, n)
SelectIdx(n, P(_)) == SetToSeq({i \in 1..n : P(i)})

(***************************************************************************)
(* truth3: AND / OR / XOR / NOT over {true,false,null}, De Morgan          *)
(* columns: a b and or xor nota n_and dm_or n_or dm_and                    *)
(***************************************************************************)
Truth3Bad(r) ==
  LET a == r[1] b == r[2] IN
  IF ~(\A c \in 1..10 : IsTruth(r[c])) THEN "not-a-truth-value"
  ELSE IF r[3] # And3(a, b) THEN "and"
  ELSE IF r[4] # Or3(a, b) THEN "or"
  ELSE IF r[5] # Xor3(a, b) THEN "xor"
  ELSE IF r[6] # Not3(a) THEN "not"
  ELSE IF r[7] # r[8] \/ r[7] # Not3(And3(a, b)) THEN "demorgan-and"
  ELSE IF r[9] # r[10] \/ r[9] # Not3(Or3(a, b)) THEN "demorgan-or"
  ELSE ""
TTruth3 ==
  /\ IsCase("truth3")
  /\ IF ~IsRows THEN Emit(Finding("C23", "query-failed", Res.err))
     ELSE LET bad == SelectIdx(NRows, LAMBDA i : Truth3Bad(Rows[i]) # "")
              pairs == {<<Rows[i][1], Rows[i][2]>> : i \in 1..NRows}
          IN /\ (IF Len(bad) = 0 THEN TRUE ELSE Emit(Finding("C23", "truth-table",
                    [row |-> Rows[bad[1]], law |-> Truth3Bad(Rows[bad[1]])])))
             /\ (IF (NRows = 9 /\ Cardinality(pairs) = 9) THEN TRUE ELSE Emit(Finding("C23", "truth-table-rows", NRows)))
  /\ l' = l + 1 /\ UNCHANGED <<ovf, gr, ixpre, firstlab, extids>>

(***************************************************************************)
(* cmp: the full comparison table of a list of values.                     *)
(* columns: i j eq ne lt le gt ge ; parameter 1 = the values               *)
(***************************************************************************)
CmpN == Len(Param(1)[2])
CmpV(i) == Param(1)[2][i + 1]
CmpRowDirect(i, j) == Rows[i * CmpN + j + 1]
CmpRow(i, j) ==
  LET r == CmpRowDirect(i, j) IN
  IF SmallInt(r[1]) = i /\ SmallInt(r[2]) = j THEN r
  ELSE Rows[CHOOSE k \in 1..NRows : SmallInt(Rows[k][1]) = i /\ SmallInt(Rows[k][2]) = j]
Eq(i, j) == CmpRow(i, j)[3]
Ne(i, j) == CmpRow(i, j)[4]
Lt(i, j) == CmpRow(i, j)[5]
Le(i, j) == CmpRow(i, j)[6]
Gt(i, j) == CmpRow(i, j)[7]
Ge(i, j) == CmpRow(i, j)[8]
Idx == 0..(CmpN - 1)
PlainIdx == {i \in Idx : Plain(CmpV(i)) /\ ~IsNull(CmpV(i))}
ExactIdx == {i \in Idx : IsExactNum(CmpV(i))}

CmpLaws ==
  LET shape  == {p \in Idx \X Idx : \E c \in 3..8 : ~IsTruth(CmpRow(p[1], p[2])[c])}
      nullp  == {p \in Idx \X Idx : (IsNull(CmpV(p[1])) \/ IsNull(CmpV(p[2])))
                                     /\ \E c \in 3..8 : ~IsNull(CmpRow(p[1], p[2])[c])}
      refl   == {i \in PlainIdx : Eq(i, i) # T}
      symm   == {p \in Idx \X Idx : Eq(p[1], p[2]) # Eq(p[2], p[1])}
      trans  == {t \in PlainIdx \X PlainIdx \X PlainIdx :
                   Eq(t[1], t[2]) = T /\ Eq(t[2], t[3]) = T /\ Eq(t[1], t[3]) # T}
      neq    == {p \in Idx \X Idx : Ne(p[1], p[2]) # Not3(Eq(p[1], p[2]))}
      (* wherever a < b is defined, the four operators are, and they agree *)
      ordc   == {p \in Idx \X Idx :
                   LET i == p[1] j == p[2] IN
                   ~IsNull(Lt(i, j)) /\ Plain(CmpV(i)) /\ Plain(CmpV(j)) /\
                   ~( /\ IsBool(Le(i, j)) /\ IsBool(Gt(i, j)) /\ IsBool(Ge(i, j)) /\ IsBool(Eq(i, j))
                      /\ Le(i, j) = Or3(Lt(i, j), Eq(i, j))
                      /\ Ge(i, j) = Or3(Gt(i, j), Eq(i, j))
                      /\ Lt(i, j) = Gt(j, i)
                      /\ Cardinality({c \in {3, 5, 7} : CmpRow(i, j)[c] = T}) = 1 )}
      (* equal values compare alike with every third value *)
      congr  == {t \in PlainIdx \X PlainIdx \X Idx :
                   Eq(t[1], t[2]) = T /\ (Lt(t[1], t[3]) # Lt(t[2], t[3]) \/ Gt(t[1], t[3]) # Gt(t[2], t[3]))}
      ltrans == {t \in PlainIdx \X PlainIdx \X PlainIdx :
                   Lt(t[1], t[2]) = T /\ Lt(t[2], t[3]) = T /\ Lt(t[1], t[3]) # T}
      (* integers and floats compare as the numbers they denote *)
      exact  == {p \in ExactIdx \X ExactIdx :
                   LET c == NumCmp(CmpV(p[1]), CmpV(p[2])) IN
                   \/ Eq(p[1], p[2]) # (IF c = 0 THEN T ELSE F)
                   \/ Lt(p[1], p[2]) # (IF c < 0 THEN T ELSE F)
                   \/ Gt(p[1], p[2]) # (IF c > 0 THEN T ELSE F)}
      mk(name, s, f(_)) == IF s = {} THEN <<>> ELSE
          <<Finding("C23", name, [count |-> Cardinality(s), witness |-> f(CHOOSE x \in s : TRUE)])>>
      two(p) == <<CmpV(p[1]), CmpV(p[2])>>
      three(t) == <<CmpV(t[1]), CmpV(t[2]), CmpV(t[3])>>
  IN IF shape # {} THEN mk("cmp-not-a-truth-value", shape, two)
     ELSE mk("null-propagation", nullp, two) \o mk("eq-not-reflexive", refl, LAMBDA i : <<CmpV(i)>>)
       \o mk("eq-not-symmetric", symm, two) \o mk("eq-not-transitive", trans, three)
       \o mk("ne-is-not-not-eq", neq, two) \o mk("order-operators-disagree", ordc, two)
       \o mk("eq-not-congruent-with-order", congr, three) \o mk("lt-not-transitive", ltrans, three)
       \o mk("int-float-compare-inexact", exact, two)
TCmp ==
  /\ IsCase("cmp")
  /\ IF ~IsRows THEN Emit(Finding("C23", "query-failed", Res.err))
     ELSE IF NRows # CmpN * CmpN THEN Emit(Finding("C23", "cmp-table-rows", NRows))
     ELSE Report(CmpLaws)
  /\ l' = l + 1 /\ UNCHANGED <<ovf, gr, ixpre, firstlab, extids>>

(***************************************************************************)
(* arith: one integer operator applied to a list of operand pairs.         *)
(* columns: i r ; parameter 1 = list of [a, b] ; meta.op                   *)
(* In range: the exact integer.  Out of range: one rule for every operator *)
(* (the class first observed in the session), never a wrapped integer.     *)
(***************************************************************************)
ArPair(i) == Param(1)[2][i + 1][2]
ArExact(i) ==
  LET a == ArPair(i)[1] b == ArPair(i)[2] IN ExactIntOp(Meta.op, a[2], IF IsInt(b) THEN b[2] ELSE BigZero)
ArHasNull(i) ==
  IsNull(ArPair(i)[1]) \/ (Meta.op \in {"add", "sub", "mul"} /\ IsNull(ArPair(i)[2]))
ArRowOf(i) == IF i + 1 <= NRows /\ SmallInt(Rows[i + 1][1]) = i THEN Rows[i + 1]
              ELSE Rows[CHOOSE k \in 1..NRows : SmallInt(Rows[k][1]) = i]
ArClasses ==   \* classes of the out-of-range answers of this case
  {OverflowClass(ArRowOf(i)[2], ArExact(i)) :
      i \in {j \in 0..(Len(Param(1)[2]) - 1) : ~ArHasNull(j) /\ ~InI64(ArExact(j))}}
TArith ==
  /\ IsCase("arith")
  /\ LET n == Len(Param(1)[2])
         over == {j \in 0..(n - 1) : ~ArHasNull(j) /\ ~InI64(ArExact(j))}
     IN IF ~IsRows THEN
          (* an error is an admissible overflow rule only if some operand pair overflows *)
          /\ (IF over # {} THEN TRUE ELSE Emit(Finding("C23", "query-failed", Res.err)))
          /\ ovf' = IF over # {} /\ ovf = "" THEN "error" ELSE ovf
          /\ (IF over = {} \/ ovf \in {"", "error"} THEN TRUE ELSE Emit(Finding("C23", "overflow-rule-differs", [op |-> Meta.op, here |-> "error", first |-> ovf])))
        ELSE IF NRows # n THEN Emit(Finding("C23", "arith-rows", NRows)) /\ UNCHANGED <<ovf, gr, ixpre, firstlab, extids>>
        ELSE
          LET nullbad == {j \in 0..(n - 1) : ArHasNull(j) /\ ~IsNull(ArRowOf(j)[2])}
              inbad   == {j \in 0..(n - 1) : ~ArHasNull(j) /\ InI64(ArExact(j))
                                              /\ ArRowOf(j)[2] # <<"int", ArExact(j)>>}
              cls     == ArClasses
              wrapped == {j \in over : OverflowClass(ArRowOf(j)[2], ArExact(j)) \in {"wrapped", "exact", "float-wrong"}}
              first   == IF ovf # "" THEN ovf ELSE IF cls = {} THEN "" ELSE
                         IF "float" \in cls THEN "float" ELSE CHOOSE c \in cls : TRUE
              differ  == {c \in cls : first # "" /\ c # first /\ ~(c = "float?" /\ first = "float")
                                      /\ ~(c = "float" /\ first = "float?")}
          IN /\ (IF nullbad = {} THEN TRUE ELSE Emit(Finding("C23", "null-propagation",
                                  [op |-> Meta.op, pair |-> ArPair(CHOOSE j \in nullbad : TRUE)])))
             /\ (IF inbad = {} THEN TRUE ELSE Emit(Finding("C23", "int-arith-wrong",
                                  [op |-> Meta.op, pair |-> ArPair(CHOOSE j \in inbad : TRUE),
                                   got |-> ArRowOf(CHOOSE j \in inbad : TRUE)[2]])))
             /\ (IF wrapped = {} THEN TRUE ELSE Emit(Finding(IF Meta.op = "sum" THEN "C21" ELSE "C23", "overflow-wraps",
                                  [op |-> Meta.op, pair |-> ArPair(CHOOSE j \in wrapped : TRUE),
                                   got |-> ArRowOf(CHOOSE j \in wrapped : TRUE)[2]])))
             /\ (IF differ \ {"wrapped", "exact", "float-wrong"} = {} THEN TRUE ELSE Emit(Finding("C23", "overflow-rule-differs",
                              [op |-> Meta.op, here |-> SetToSeq(differ), first |-> first])))
             /\ ovf' = first
  /\ l' = l + 1 /\ UNCHANGED <<gr, ixpre, firstlab, extids>>

(***************************************************************************)
(* order: ORDER BY over composite keys with directions, SKIP and LIMIT.    *)
(* parameter 1 = list of key tuples (the input rows); result columns =     *)
(* the keys; meta.dirs, meta.skip, meta.limit (-1 = absent)                *)
(***************************************************************************)
OrdIn == Param(1)[2]                       \* sequence of <<"list", keys>>
OrdKeys(i) == OrdIn[i][2]
OrdDirs == Meta.dirs
(* number of input rows strictly before / not after row k in the required order *)
Before(k, strict) ==
  Cardinality({i \in 1..Len(OrdIn) :
     LET c == KeyCmp(OrdKeys(i), k, OrdDirs, 1) IN IF strict THEN c < 0 ELSE c <= 0})
TOrder ==
  /\ IsCase("order")
  /\ IF ~IsRows THEN Emit(Finding("C20", "query-failed", Res.err))
     ELSE
       LET n == Len(OrdIn)
           s == IF Meta.skip < 0 THEN 0 ELSE Meta.skip
           want == LET rest == IF n > s THEN n - s ELSE 0
                   IN IF Meta.limit < 0 \/ Meta.limit > rest THEN rest ELSE Meta.limit
           incomparable == \E i, j \in 1..n : ~KeyComparable(OrdKeys(i), OrdKeys(j))
           unsorted == {i \in 1..(NRows - 1) : KeyCmp(Rows[i], Rows[i + 1], OrdDirs, 1) > 0}
           (* position p (1-based, after SKIP) must hold a row whose rank interval contains s+p *)
           misplaced == {p \in 1..NRows :
                           ~(Before(Rows[p], TRUE) < s + p /\ s + p <= Before(Rows[p], FALSE))}
           inCanon == {ToString(Rec[l].params[1][3])}
           (* every output row is an input row, with multiplicity *)
           canonIn(i) == OrdIn[i]
           foreign == {p \in 1..NRows :
                         Cardinality({q \in 1..NRows : Rows[q] = Rows[p]}) >
                         Cardinality({i \in 1..n : OrdKeys(i) = Rows[p]})}
       IN IF incomparable THEN Emit(Finding("C20", "generator-incomparable-keys", n))
          ELSE /\ (IF NRows = want THEN TRUE ELSE Emit(Finding("C20", "slice-length", [got |-> NRows, want |-> want])))
               /\ (IF foreign = {} THEN TRUE ELSE Emit(Finding("C20", "not-a-permutation",
                                    [row |-> Rows[CHOOSE p \in foreign : TRUE]])))
               /\ (IF unsorted = {} THEN TRUE ELSE
                   LET i == CHOOSE i \in unsorted : TRUE IN
                   Emit(Finding("C20", "not-sorted", [first |-> Rows[i], second |-> Rows[i + 1], dirs |-> OrdDirs])))
               /\ (IF unsorted # {} \/ foreign # {} \/ misplaced = {} THEN TRUE ELSE Emit(Finding("C20", "wrong-slice", [pos |-> CHOOSE p \in misplaced : TRUE, skip |-> s])))
  /\ l' = l + 1 /\ UNCHANGED <<ovf, gr, ixpre, firstlab, extids>>

(***************************************************************************)
(* agg: grouping and aggregates.  parameter 1 = list of [key, value].      *)
(* columns: k c cv s mn mx col av cd sd cold                               *)
(*   count-star count(v) sum(v) min(v) max(v) collect(v) avg(v)             *)
(*   count(DISTINCT v) sum(DISTINCT v) collect(DISTINCT v)                 *)
(***************************************************************************)
AggIn == Param(1)[2]
AggK(i) == AggIn[i][2][1]
AggV(i) == AggIn[i][2][2]
Group(k) == {i \in 1..Len(AggIn) : AggK(i) = k}
NonNull(k) == {i \in Group(k) : ~IsNull(AggV(i))}
RECURSIVE SumBig(_, _)
SumBig(S, scale) ==   \* exact sum of numbers, scaled by 2^scale (all e <= scale)
  IF S = {} THEN BigZero
  ELSE LET i == CHOOSE x \in S : TRUE
       IN BigAdd(BigMulPow2(NumN(AggV(i)), scale - NumE(AggV(i))), SumBig(S \ {i}, scale))
MaxE(S) == IF S = {} THEN 0 ELSE LET es == {NumE(AggV(i)) : i \in S} IN CHOOSE e \in es : \A f \in es : f <= e
(* one index per distinct value *)
Distinct(S) == {i \in S : \A j \in S : AggV(j) = AggV(i) => i <= j}
RECURSIVE SumAbsBig(_, _)
SumAbsBig(S, scale) ==   \* sum of the absolute values, scaled by 2^scale
  IF S = {} THEN BigZero
  ELSE LET i == CHOOSE x \in S : TRUE
       IN BigAdd(BigAbs(BigMulPow2(NumN(AggV(i)), scale - NumE(AggV(i)))), SumAbsBig(S \ {i}, scale))
(* a float answer f = n/2^e for an exact value x/2^sc, within the rounding error of adding the  *)
(* values in any order: | f*k - x/2^sc | <= (sum of |v|) / 2^48                                 *)
FloatWithin(cell, k, x, sc, S) ==
  cell[1] = "float" /\
  (cell[2].k = "other" \/
   (cell[2].k = "fin" /\
    LET lhs == BigAbs(BigSub(BigMulPow2(BigMulSmall(cell[2].n, k), sc), BigMulPow2(x, cell[2].e)))
    IN BigCmp(BigMulPow2(lhs, 48), BigMulPow2(SumAbsBig(S, sc), cell[2].e)) <= 0))
SumOk(cell, S) ==     \* S: indices of the non-null values, all exact finite numbers
  LET sc == MaxE(S) x == SumBig(S, sc) allInt == \A i \in S : IsInt(AggV(i)) IN
  IF allInt THEN (IF InI64(x) THEN cell = <<"int", x>> ELSE OverflowClass(cell, x) \in {"float", "float?", "null"})
  ELSE FloatWithin(cell, 1, x, sc, S)
AvgOk(cell, S) ==
  LET sc == MaxE(S) x == SumBig(S, sc) cnt == Cardinality(S) IN
  IF S = {} THEN IsNull(cell) ELSE FloatWithin(cell, cnt, x, sc, S)
Extreme(S, dir) ==   \* index of a minimal (dir = -1) / maximal (dir = 1) value
  CHOOSE i \in S : \A j \in S : OrdCmp(AggV(i), AggV(j)) * dir >= 0
BagEq(cellList, S) ==
  /\ Len(cellList) = Cardinality(S)
  /\ \A p \in 1..Len(cellList) :
       Cardinality({q \in 1..Len(cellList) : cellList[q] = cellList[p]}) =
       Cardinality({i \in S : AggV(i) = cellList[p]})
AggRowBad(r) ==
  LET k == r[1] G == Group(k) S == NonNull(k) D == Distinct(S)
      numeric == Meta.numeric /\ \A i \in S : IsFiniteNum(AggV(i))
      ordered == \A i, j \in S : Comparable(AggV(i), AggV(j)) /\ ~IsNaN(AggV(i))
  IN IF G = {} THEN "unknown-group-key"
     ELSE IF r[2] # <<"int", ToBig(Cardinality(G))>> THEN "count-star"
     ELSE IF r[3] # <<"int", ToBig(Cardinality(S))>> THEN "count"
     ELSE IF numeric /\ ~SumOk(r[4], S) THEN "sum"
     ELSE IF ordered /\ S # {} /\ OrdCmp(r[5], AggV(Extreme(S, -1))) # 0 THEN "min"
     ELSE IF ordered /\ S # {} /\ OrdCmp(r[6], AggV(Extreme(S, 1))) # 0 THEN "max"
     ELSE IF S = {} /\ (~IsNull(r[5]) \/ ~IsNull(r[6])) THEN "min-max-of-nothing"
     ELSE IF r[7][1] # "list" \/ ~BagEq(r[7][2], S) THEN "collect"
     ELSE IF numeric /\ ~AvgOk(r[8], S) THEN "avg"
     ELSE IF r[9] # <<"int", ToBig(Cardinality(D))>> THEN "count-distinct"
     ELSE IF numeric /\ ~SumOk(r[10], D) THEN "sum-distinct"
     ELSE IF r[11][1] # "list" \/ ~BagEq(r[11][2], D) THEN "collect-distinct"
     ELSE ""
TAgg ==
  /\ IsCase("agg")
  /\ IF ~IsRows THEN Emit(Finding("C21", "query-failed", Res.err))
     ELSE
       LET keys == {AggK(i) : i \in 1..Len(AggIn)}
           dupRows == {p \in 1..NRows : \E q \in 1..NRows : q # p /\ Rows[q][1] = Rows[p][1]}
           bad == SelectIdx(NRows, LAMBDA p : AggRowBad(Rows[p]) # "")
       IN /\ (IF (NRows = Cardinality(keys) /\ dupRows = {}) THEN TRUE ELSE Emit(Finding("C21", "one-row-per-key", [rows |-> NRows, keys |-> Cardinality(keys)])))
          /\ (IF Len(bad) = 0 THEN TRUE ELSE Emit(Finding("C21", "aggregate-" \o AggRowBad(Rows[bad[1]]),
                                  [row |-> Rows[bad[1]]])))
  /\ l' = l + 1 /\ UNCHANGED <<ovf, gr, ixpre, firstlab, extids>>

(***************************************************************************)
(* err: one row of the input raises a runtime error; the rule says whether *)
(* the operator must consume that row.                                     *)
(* meta: op, fail (0-based index of the failing row), n, limit (-1 none)   *)
(***************************************************************************)
Blocking == {"distinct", "union", "unionall", "orderby", "agg", "collect", "with-agg", "with-orderby"}
Consumes(m) ==
  \/ m.op \in Blocking          \* the operator needs every input row before (or while) answering
  \/ m.limit < 0                \* no LIMIT: every row is part of the result
  \/ m.fail < m.limit           \* the failing row is among the first LIMIT rows
TErr ==
  /\ IsCase("err")
  /\ (IF ~Consumes(Meta) \/ Res.out = "err" THEN TRUE ELSE Emit(Finding("C22", "error-swallowed", [op |-> Meta.op, pos |-> Meta.pos, fail |-> Meta.fail,
                                              rows |-> NRows, query |-> Rec[l].query])))
  /\ l' = l + 1 /\ UNCHANGED <<ovf, gr, ixpre, firstlab, extids>>

(***************************************************************************)
(* part: rows(no filter) = rows(p) (+) rows(NOT p) (+) rows(p IS NULL)     *)
(* resq = the four results in that order (canonical row strings)           *)
(***************************************************************************)
RowStrs(r) == [i \in 1..Len(r.canon) |-> ToString(r.canon[i])]
CountIn(s, x) == Cardinality({i \in 1..Len(s) : s[i] = x})
TPart ==
  /\ IsCase("part")
  /\ LET q == Rec[l].resq IN
     IF q[1].out # "rows" THEN TRUE       \* the unfiltered query itself fails: nothing to partition
     ELSE IF \E i \in 2..4 : q[i].out # "rows" THEN
            (* a predicate that raises is outside the property unless only some variants raise *)
            IF (\A i \in 2..4 : q[i].out # "rows") THEN TRUE ELSE
            Emit(Finding("C19", "some-variants-fail", [outs |-> <<q[2].out, q[3].out, q[4].out>>, query |-> Rec[l].query]))
     ELSE LET all == RowStrs(q[1]) a == RowStrs(q[2]) b == RowStrs(q[3]) c == RowStrs(q[4])
              univ == {all[i] : i \in 1..Len(all)} \cup {a[i] : i \in 1..Len(a)}
                      \cup {b[i] : i \in 1..Len(b)} \cup {c[i] : i \in 1..Len(c)}
              bad == {x \in univ : CountIn(all, x) # CountIn(a, x) + CountIn(b, x) + CountIn(c, x)}
          IN IF bad = {} THEN TRUE ELSE
             LET x == CHOOSE x \in bad : TRUE IN
             Emit(Finding("C19", IF CountIn(all, x) > CountIn(a, x) + CountIn(b, x) + CountIn(c, x)
                                 THEN "row-lost" ELSE "row-duplicated",
                          [row |-> x, all |-> CountIn(all, x), t |-> CountIn(a, x), f |-> CountIn(b, x),
                           n |-> CountIn(c, x), query |-> Rec[l].query]))
  /\ l' = l + 1 /\ UNCHANGED <<ovf, gr, ixpre, firstlab, extids>>

(***************************************************************************)
(***************************************************************************)
(* read (C11): the rows of a generated read query against the reference    *)
(* evaluator CypherSem on the session's graph.  meta.ast = the query.      *)
(***************************************************************************)
ReadKeyCmp(t1, t2, order) == KeyCmp(OrderKeys(t1, order), OrderKeys(t2, order), OrderDirs(order), 1)
(* "" when the observed rows O are an admissible answer for the reference bag E *)
ReadVerdict(E, O, ret, bc) ==
  LET s == IF ret.skip < 0 THEN 0 ELSE ret.skip
      rest == IF Len(E) > s THEN Len(E) - s ELSE 0
      want == IF ret.limit < 0 \/ ret.limit > rest THEN rest ELSE ret.limit
      sliced == ret.skip > 0 \/ (ret.limit >= 0 /\ ret.limit < Len(E))
      foreign == {p \in 1..Len(O) : CountSameB(O, O[p], bc) > CountSameB(E, O[p], bc)}
      missing == {p \in 1..Len(E) : CountSameB(O, E[p], bc) < CountSameB(E, E[p], bc)}
      unsorted == {p \in 1..(Len(O) - 1) : ReadKeyCmp(O[p], O[p + 1], ret.order) > 0}
      before(t, strict) == Cardinality({i \in 1..Len(E) :
                              LET c == ReadKeyCmp(E[i], t, ret.order) IN IF strict THEN c < 0 ELSE c <= 0})
      misplaced == {p \in 1..Len(O) : ~(before(O[p], TRUE) < s + p /\ s + p <= before(O[p], FALSE))}
  IN IF Len(O) # want THEN "row-count"
     ELSE IF foreign # {} THEN "row-not-in-reference"
     ELSE IF ~sliced /\ missing # {} THEN "row-missing"
     ELSE IF Len(ret.order) > 0 /\ unsorted # {} THEN "not-sorted"
     ELSE IF Len(ret.order) > 0 /\ misplaced # {} THEN "wrong-slice"
     ELSE ""
(* every cell that is a non-empty list of relationships, reversed *)
RevRelLists(rows) ==
  [i \in 1..Len(rows) |->
     [c \in 1..Len(rows[i]) |->
        LET v == rows[i][c] IN
        IF v[1] = "list" /\ Len(v[2]) > 1 /\ (\A k \in 1..Len(v[2]) : v[2][k][1] = "rel")
        THEN <<"list", Reverse(v[2])>> ELSE v]]
ReadProp == IF Rec[l].kind = "read" THEN "C11" ELSE IF Rec[l].kind = "bread" THEN "C30"
            ELSE IF Meta.indexed THEN "C15" ELSE "C11"
TRead ==
  /\ l <= Len(Rec) /\ Rec[l].ev = "case" /\ Rec[l].kind \in {"read", "idx", "bread"}
  /\ LET q == Meta.ast
         E == ResultBag(gr, q)
         v == IF IsRows THEN ReadVerdict(E, Rows, q.ret, BagCols(q)) ELSE "query-failed"
         idxCauses ==   \* why the index may have missed the reference rows that were not returned
           LET lab == q.parts[1].pats[1].nodes[1].labels[1]
               litv == IF HasWhere(q.parts[1].where) THEN q.parts[1].where[4][2]
                       ELSE q.parts[1].pats[1].nodes[1].props[1][2][2]
               missing == {SmallBig(E[p][1][2]) : p \in {x \in 1..Len(E) : CountSame(Rows, E[x]) < CountSame(E, E[x])}}
               why(id) == LET n == NodeRec(gr, id) stored == PropIn(n.props, "p") IN
                          IF stored[1] # litv[1] THEN "stored-number-of-the-other-kind"
                          ELSE IF \E fl \in firstlab : fl[1] = id /\ fl[2] # lab THEN "label-is-not-the-first-label"
                          ELSE IF id \in ixpre THEN "created-before-the-index"
                          ELSE "none"
           IN SetToSeq({why(id) : id \in missing})
         cause == IF v = "" \/ ~IsRows THEN ""
                  ELSE IF Rec[l].kind = "idx" THEN
                         (IF \A p \in 1..NRows : CountSame(Rows, Rows[p]) <= CountSame(E, Rows[p])
                          THEN "index-misses-rows"
                          ELSE IF \A p \in 1..NRows : CountSame(E, Rows[p]) >= 1
                          THEN "index-lists-a-matching-node-twice" ELSE "index-adds-rows")
                  ELSE IF MultiPattern(q) /\ ReadVerdict(ResultBagU(gr, q, TRUE), Rows, q.ret, BagCols(q)) = ""
                       THEN "rel-uniqueness-only-within-one-pattern"
                  ELSE IF ReadVerdict(E, RevRelLists(Rows), q.ret, BagCols(q)) = ""
                       THEN "variable-length-relationship-list-reversed"
                  ELSE IF BoundMidNode(q) THEN "bound-node-in-the-middle-of-a-pattern"
                  ELSE IF HasParallel(gr) THEN "graph-has-parallel-relationships"
                  ELSE "none"
     IN IF v = "" THEN TRUE
        ELSE Emit(Finding(IF Rec[l].kind = "bread" /\ cause \notin {"none", ""} THEN "C11" ELSE ReadProp, v, [cause |-> cause,
                                     causes |-> IF Rec[l].kind = "idx" /\ IsRows THEN idxCauses ELSE <<>>,
                                     got |-> NRows, reference |-> Len(E),
                                     refrows |-> IF Len(E) <= 6 THEN E ELSE SubSeq(E, 1, 6),
                                     gotrows |-> IF NRows <= 6 THEN Rows ELSE SubSeq(Rows, 1, 6),
                                     err |-> Res.err, query |-> Rec[l].query]))
  /\ l' = l + 1 /\ UNCHANGED <<ovf, gr, ixpre, firstlab, extids>>

(***************************************************************************)
(* C30: a session whose database was produced by the bulk loader (or by    *)
(* transactions from the same input).  The dump must equal the graph the   *)
(* input describes, up to node identity.                                   *)
(***************************************************************************)
BulkGraph(b) ==
  LET ns == b.nodes es == b.edges
      idOf(ext) == (CHOOSE i \in 1..Len(ns) : ns[i].ext = ext) - 1
  IN [nodes |-> [i \in 1..Len(ns) |-> [id |-> i - 1, labels |-> <<ns[i].label>>, props |-> ns[i].props]],
      rels |-> [j \in 1..Len(es) |-> [src |-> idOf(es[j].src), type |-> es[j].type, tcp |-> es[j].tcp,
                                       dst |-> idOf(es[j].dst), props |-> es[j].props, dead |-> FALSE]],
      inn |-> <<>>]
BulkCheck ==
  IF "bulk" \notin DOMAIN Rec[l] THEN TRUE
  ELSE LET b == Rec[l].bulk IN
       IF b.res # "ok" THEN
         Emit([prop |-> "C30", at |-> l, cid |-> 0, sid |-> Rec[l].sid, case |-> "bulk", kind |-> "load-failed",
               detail |-> [mode |-> b.mode, res |-> b.res]])
       ELSE LET d == GraphDiff(BulkGraph(b.echo), Rec[l].graph)
                w == DumpIllFormed(Rec[l].graph) IN
            IF d = "" /\ w = "" THEN TRUE
            ELSE Emit([prop |-> "C30", at |-> l, cid |-> 0, sid |-> Rec[l].sid, case |-> "bulk",
                       kind |-> IF d # "" THEN d ELSE w, detail |-> [mode |-> b.mode]])

TSession ==
  /\ l <= Len(Rec) /\ Rec[l].ev = "session"
  /\ BulkCheck
  /\ gr' = IF "graph" \in DOMAIN Rec[l] THEN Rec[l].graph ELSE NoGraph
  /\ l' = l + 1 /\ ovf' = "" /\ ixpre' = {} /\ firstlab' = {} /\ extids' = {}
(* write / admin cases: the graph the following reads are judged on is the one dumped after them *)
TWrite ==
  /\ l <= Len(Rec) /\ Rec[l].ev = "case" /\ Rec[l].kind \in {"write", "admin"}
  /\ gr' = IF "graph" \in DOMAIN Rec[l] THEN Rec[l].graph ELSE gr
  /\ ixpre' = IF "index_op" \in DOMAIN Meta /\ Meta.index_op /\ IsRows
              THEN {gr.nodes[i].id : i \in 1..Len(gr.nodes)} ELSE ixpre
  /\ firstlab' = IF "first_label" \in DOMAIN Meta /\ Meta.first_label # "" /\ "graph" \in DOMAIN Rec[l]
                 THEN firstlab \cup {<<Rec[l].graph.nodes[i].id, Meta.first_label>> :
                                      i \in {j \in 1..Len(Rec[l].graph.nodes) :
                                               \A k \in 1..Len(gr.nodes) : gr.nodes[k].id # Rec[l].graph.nodes[j].id}}
                 ELSE firstlab
  /\ l' = l + 1 /\ UNCHANGED <<ovf, extids>>

(***************************************************************************)
(* lim (C33): the same query without limits (res) and under each limit     *)
(* setting (resl).  A limited run returns the complete result or fails     *)
(* with a resource-limit error whose reported overshoot is bounded.        *)
(***************************************************************************)
StrBagEq(a, b) ==
  /\ Len(a) = Len(b)
  /\ \A i \in 1..Len(a) : Cardinality({j \in 1..Len(a) : a[j] = a[i]}) = Cardinality({j \in 1..Len(b) : b[j] = a[i]})
TLim ==
  /\ IsCase("lim")
  /\ LET full == RowStrs(Res)
         bad(k) ==
           LET r == Rec[l].resl[k] IN
           IF r.out = "rows" THEN
             (IF IsRows /\ ~StrBagEq(RowStrs(r), full) THEN "truncated-or-altered-result" ELSE "")
           ELSE IF r.out = "panic" THEN "panic"
           ELSE IF r.errclass # "resource" THEN (IF IsRows THEN "non-resource-error-under-limits" ELSE "")
           ELSE IF r.limit_err.kind = "Timeout" THEN
                  (IF r.limit_err.observed > r.limit_err.limit + Meta.time_slack_ms THEN "timeout-overshoot" ELSE "")
           ELSE IF r.limit_err.kind \in {"IntermediateRows", "ApplyRowsPerOuter"}
                   /\ r.limit_err.observed > r.limit_err.limit + Meta.count_slack THEN "limit-overshoot"
           ELSE ""
         bads == SelectIdx(Len(Rec[l].resl), LAMBDA k : bad(k) # "")
     IN IF Len(bads) = 0 THEN TRUE
        ELSE Emit(Finding("C33", bad(bads[1]),
                          [options |-> Rec[l].resl[bads[1]].options, out |-> Rec[l].resl[bads[1]].out,
                           err |-> Rec[l].resl[bads[1]].err, limited_rows |-> Len(Rec[l].resl[bads[1]].canon),
                           full_rows |-> NRows, query |-> Rec[l].query]))
  /\ l' = l + 1 /\ UNCHANGED <<ovf, gr, ixpre, firstlab, extids>>

(***************************************************************************)
(* upd (C12 / C13): an update statement against the reference ApplyStmt.   *)
(* The graph dumped after the statement must equal the predicted graph up  *)
(* to node identity; a statement the reference rejects must fail and a     *)
(* failed statement must leave the graph as it was.                        *)
(***************************************************************************)
WellFormedCheck ==   \* C14 on the dump carried by the current event
  LET w == DumpIllFormed(Rec[l].graph) IN
  IF w = "" THEN TRUE ELSE Emit(Finding("C14", w, [query |-> Rec[l].query]))
NoRef == "noref" \in DOMAIN Meta /\ Meta.noref
HasGraph == "graph" \in DOMAIN Rec[l] /\ "nodes" \in DOMAIN Rec[l].graph
(* the graph could not be read back after the case: reported, the reference state is kept *)
TNoGraph ==
  /\ l <= Len(Rec) /\ Rec[l].ev = "case" /\ Rec[l].kind \in {"upd", "txn"} /\ ~HasGraph
  /\ Emit(Finding(IF "prop" \in DOMAIN Meta THEN Meta.prop ELSE "C12", "graph-unreadable-after-statement",
                  [dump |-> Rec[l].graph, query |-> Rec[l].query]))
  /\ l' = l + 1 /\ UNCHANGED <<ovf, gr, ixpre, firstlab, extids>>
TUpd ==
  /\ IsCase("upd") /\ HasGraph
  /\ WellFormedCheck
  /\ LET out == IF NoRef THEN [ok |-> TRUE, g |-> gr] ELSE ApplyStmt(gr, Meta.ast)
         obs == Rec[l].graph
         sizes(G) == <<Len(G.nodes), Len(LiveRelSeq(G))>>
     IN IF NoRef THEN
          (* outside the reference fragment: only "a failed statement has no effect" is judged *)
          (IF IsRows THEN TRUE
           ELSE LET d == GraphDiff(gr, obs) IN
                IF d = "" THEN TRUE
                ELSE Emit(Finding("C13", "failed-statement-changed-the-graph", [diff |-> d, err |-> Res.err, query |-> Rec[l].query])))
        ELSE IF out.ok THEN
          (IF ~IsRows THEN Emit(Finding("C12", "statement-failed", [err |-> Res.err, query |-> Rec[l].query]))
           ELSE LET d == GraphDiff(out.g, obs) IN
                IF d = "" THEN TRUE
                ELSE IF OrderDependent(gr, Meta.ast) THEN TRUE    \* no single predicted graph: not judged
                ELSE Emit(Finding(IF "prop" \in DOMAIN Meta THEN Meta.prop ELSE "C12", d, [cause |-> LET alt == ApplyStmtU(gr, Meta.ast, "stmt", FALSE)
                                                            alt2 == ApplyStmtU(gr, Meta.ast, "clause", FALSE) IN
                                                        IF alt.ok /\ GraphDiff(alt.g, obs) = ""
                                                        THEN "update-expressions-read-the-pre-statement-graph"
                                                        ELSE IF alt2.ok /\ GraphDiff(alt2.g, obs) = ""
                                                        THEN "update-expressions-read-the-graph-at-clause-start"
                                                        ELSE IF GraphDiff(SharedRelProps(out.g), SharedRelProps(obs)) = ""
                                                        THEN "parallel-relationships-share-one-property-record" ELSE "none",
                                             before |-> sizes(gr), predicted |-> sizes(out.g), observed |-> sizes(obs),
                                             rep |-> IF "rep" \in DOMAIN Meta THEN Meta.rep ELSE 0, query |-> Rec[l].query])))
        ELSE
          (IF IsRows THEN Emit(Finding("C14", "statement-should-fail", [why |-> out.why, query |-> Rec[l].query]))
           ELSE LET d == GraphDiff(gr, obs) IN
                IF d = "" THEN TRUE
                ELSE Emit(Finding("C13", "failed-statement-changed-the-graph", [diff |-> d, err |-> Res.err, query |-> Rec[l].query])))
  /\ gr' = Rec[l].graph
  /\ l' = l + 1 /\ UNCHANGED <<ovf, ixpre, firstlab, extids>>

(***************************************************************************)
(* txn (C13 / C24 / C14): an explicit transaction of the C API.  Statements *)
(* that returned OK are applied in order, each on the state the earlier    *)
(* ones left (a transaction sees its own writes); statements that failed   *)
(* contribute nothing; after COMMIT the dump must equal the result, after  *)
(* ROLLBACK the graph before the transaction.                              *)
(***************************************************************************)
TTxn ==
  /\ IsCase("txn") /\ HasGraph
  /\ WellFormedCheck
  /\ LET stmts == Rec[l].stmts
         sres == Rec[l].stmt_res
         n == Len(stmts)
         obs == Rec[l].graph
         hasFailed == \E i \in 1..n : sres[i].out # "rows"
         RECURSIVE run(_, _, _)
         run(i, g, own) ==
           IF i > n THEN [ok |-> TRUE, g |-> g]
           ELSE IF sres[i].out # "rows" THEN run(i + 1, g, own)
           ELSE IF stmts[i].meta.noref THEN [ok |-> FALSE, g |-> g]
           ELSE LET o == IF own THEN ApplyStmt(g, stmts[i].meta.ast) ELSE ApplyStmtSplit(gr, g, stmts[i].meta.ast)
                IN IF o.ok THEN run(i + 1, o.g, own) ELSE [ok |-> FALSE, g |-> g]
         (* alternative readings used only to attribute a divergence: rows matched on Gm, effects applied to the transaction's state *)
         Bare(g) == LET have == {gr.nodes[i].id : i \in 1..Len(gr.nodes)}
                        fresh == SelectSeq(g.nodes, LAMBDA nd : nd.id \notin have)
                    IN [gr EXCEPT !.nodes = gr.nodes \o [i \in 1..Len(fresh) |-> [id |-> fresh[i].id, labels |-> <<>>, props |-> <<>>]]]
         RECURSIVE runAs(_, _, _)
         runAs(i, g, how) ==
           IF i > n THEN [ok |-> TRUE, g |-> g]
           ELSE IF sres[i].out # "rows" THEN runAs(i + 1, g, how)
           ELSE IF stmts[i].meta.noref THEN [ok |-> FALSE, g |-> g]
           ELSE LET o == ApplyStmtSplit(IF how = "hybrid" THEN Bare(g) ELSE gr, g, stmts[i].meta.ast)
                IN IF o.ok THEN runAs(i + 1, o.g, how) ELSE [ok |-> FALSE, g |-> g]
         pred == run(1, gr, TRUE)
         committed == Rec[l].end = "commit" /\ IsRows
         expected == IF committed THEN pred.g ELSE gr
         sizes(G) == <<Len(G.nodes), Len(LiveRelSeq(G))>>
     IN IF ~pred.ok THEN TRUE        \* a statement the reference cannot predict succeeded: not judged
        ELSE LET d == GraphDiff(expected, obs) IN
             IF d = "" THEN TRUE
             ELSE Emit(Finding(Meta.prop, d,
                    [cause |-> LET alt == runAs(1, gr, "hybrid") pure == runAs(1, gr, "pure") IN
                               (* what the engine does today: a statement matches against the committed snapshot plus the nodes created  *)
                               (* earlier in the transaction, seen as bare nodes (full scans find them, labels and properties do not)    *)
                               IF committed /\ alt.ok /\ GraphDiff(alt.g, obs) = ""
                               THEN "statements-read-the-committed-snapshot"
                               (* not even those: every statement matched against the committed snapshot alone *)
                               ELSE IF committed /\ pure.ok /\ GraphDiff(pure.g, obs) = ""
                               THEN "statements-read-only-the-committed-snapshot"
                               ELSE IF committed /\ hasFailed THEN "a-failed-statement-is-part-of-the-commit"
                               ELSE "none",
                     before |-> sizes(gr), predicted |-> sizes(expected), observed |-> sizes(obs),
                     outcomes |-> [i \in 1..n |-> sres[i].out], end |-> Rec[l].end,
                     script |-> [i \in 1..n |-> stmts[i].query]]))
  /\ gr' = Rec[l].graph
  /\ l' = l + 1 /\ UNCHANGED <<ovf, ixpre, firstlab, extids>>

(***************************************************************************)
(* ext (C32): CREATE statements under a scripted clock (the behaviours of   *)
(* ExtId.tla), then compaction and reopen.  Every statement must succeed,   *)
(* add exactly its nodes, and every node keeps its identity.                *)
(***************************************************************************)
NodeTag(n) == <<PropIn(n.props, "s"), PropIn(n.props, "i")>>
KeepsIdentities(G, H) ==   \* every node of G is in H with the same id and the same tag
  \A i \in 1..Len(G.nodes) : \E j \in 1..Len(H.nodes) :
     H.nodes[j].id = G.nodes[i].id /\ NodeTag(H.nodes[j]) = NodeTag(G.nodes[i])
TExt ==
  /\ l <= Len(Rec) /\ Rec[l].ev = "case" /\ Rec[l].kind \in {"ext", "extadmin", "extfail"}
  /\ LET obs == Rec[l].graph
         want == Len(gr.nodes) + (IF Rec[l].kind = "ext" THEN Meta.n ELSE 0)
         tags == {NodeTag(obs.nodes[i]) : i \in 1..Len(obs.nodes)}
         mine == [i \in 1..Len(Meta.clock) |-> (i - 1) + Meta.clock[i]]     \* the allocation rule
         dupByRule == (\E i \in 1..Len(mine) : mine[i] \in extids)
                      \/ (\E i, j \in 1..Len(mine) : i # j /\ mine[i] = mine[j])
     IN IF Rec[l].kind = "extfail" THEN
          (* a statement meant to fail after reserving an identity: nothing of it may remain *)
          (IF IsRows \/ (Len(obs.nodes) = Len(gr.nodes) /\ KeepsIdentities(gr, obs)) THEN TRUE
           ELSE Emit(Finding("C32", "failed-statement-left-nodes", [got |-> Len(obs.nodes), want |-> Len(gr.nodes), query |-> Rec[l].query])))
        ELSE IF ~IsRows THEN
          Emit(Finding("C32", IF Rec[l].kind = "ext" THEN "create-failed" ELSE "admin-failed",
                       [err |-> Res.err, clock |-> Meta.clock, duplicate_by_the_allocation_rule |-> dupByRule,
                        query |-> Rec[l].query]))
        ELSE IF Len(obs.nodes) # want THEN
          Emit(Finding("C32", "node-count", [got |-> Len(obs.nodes), want |-> want, query |-> Rec[l].query]))
        ELSE IF ~KeepsIdentities(gr, obs) THEN
          Emit(Finding("C32", "identity-changed", [query |-> Rec[l].query]))
        ELSE IF Cardinality(tags) # Len(obs.nodes) THEN
          Emit(Finding("C32", "two-nodes-share-one-creation", [query |-> Rec[l].query]))
        ELSE TRUE
  /\ gr' = IF IsRows THEN Rec[l].graph ELSE gr
  /\ extids' = IF IsRows /\ Rec[l].kind # "extfail" THEN extids \cup {(i - 1) + Meta.clock[i] : i \in 1..Len(Meta.clock)} ELSE extids
  /\ l' = l + 1 /\ UNCHANGED <<ovf, ixpre, firstlab>>

(***************************************************************************)
(* C34: the C API against the Rust API.                                    *)
(*  parity: the same read on identical databases through ndb_query (cres)  *)
(*          and through prepare + execute_streaming (res): same outcome,   *)
(*          same error category, same bag of rows (canonical texts).       *)
(*  accept: a statement offered to ndb_query and to ndb_execute_write; the  *)
(*          documented rule: the read entry accepts exactly the statements *)
(*          without an update clause anywhere (FOREACH bodies, CALL        *)
(*          subqueries and UNION branches included), the write entry       *)
(*          exactly the others.  meta.tree = the clause tree.              *)
(***************************************************************************)
RECURSIVE ContainsWrite(_)
ContainsWrite(q) ==
  \E i \in 1..Len(q) :
     \/ q[i].k \in {"create", "merge", "set", "remove", "delete", "foreach"}
     \/ (q[i].k \in {"call", "union"} /\ ContainsWrite(q[i].q))
TParity ==
  /\ IsCase("parity")
  /\ LET r == Rec[l].res c == Rec[l].cres IN
     IF (r.out = "rows") # (c.out = "rows") THEN
       Emit(Finding("C34", "one-api-fails", [rust |-> r.out, c |-> c.out, rust_err |-> r.err, c_err |-> c.err, query |-> Rec[l].query]))
     ELSE IF r.out # "rows" THEN
       (IF (r.errclass = "syntax") = (c.errclass = "syntax") THEN TRUE
        ELSE Emit(Finding("C34", "error-category-differs", [rust |-> r.errclass, c |-> c.errclass, query |-> Rec[l].query])))
     ELSE IF StrBagEq(r.rowstrs, c.rowstrs) THEN TRUE
     ELSE Emit(Finding("C34", "rows-differ",
                       [rust |-> IF Len(r.rowstrs) <= 4 THEN r.rowstrs ELSE SubSeq(r.rowstrs, 1, 4),
                        c |-> IF Len(c.rowstrs) <= 4 THEN c.rowstrs ELSE SubSeq(c.rowstrs, 1, 4), query |-> Rec[l].query]))
  /\ l' = l + 1 /\ UNCHANGED <<ovf, gr, ixpre, firstlab, extids>>
TAccept ==
  /\ IsCase("accept")
  /\ LET w == ContainsWrite(Meta.tree)
         rq == Rec[l].res_query rw == Rec[l].res_exec
         unsupported == rq.errclass = "syntax" /\ rw.errclass = "syntax"
         (* gate_refused: the entry point turned the statement away as being of the wrong kind; a failure while *)
         (* executing an accepted statement is not an acceptance decision                                      *)
         bad == IF unsupported THEN ""
                ELSE IF w /\ ~rq.gate_refused THEN "read-entry-accepts-a-write"
                ELSE IF ~w /\ rq.gate_refused THEN "read-entry-refuses-a-read"
                ELSE IF ~w /\ ~rw.gate_refused THEN "write-entry-accepts-a-read"
                ELSE IF w /\ rw.gate_refused THEN "write-entry-refuses-a-write"
                ELSE ""
     IN IF bad = "" THEN TRUE
        ELSE Emit(Finding("C34", bad, [cls |-> Meta.cls, query_err |-> rq.err, exec_err |-> rw.err, query |-> Rec[l].query]))
  /\ l' = l + 1 /\ UNCHANGED <<ovf, gr, ixpre, firstlab, extids>>

TOtherCase ==
  /\ l <= Len(Rec) /\ Rec[l].ev = "case"
  /\ Rec[l].kind \notin {"truth3", "cmp", "arith", "order", "agg", "err", "part", "read", "idx", "write", "admin", "lim", "upd", "txn", "bread", "ext", "extadmin", "parity", "accept"}
  /\ l' = l + 1 /\ UNCHANGED <<ovf, gr, ixpre, firstlab, extids>>

Next == TSession \/ TRead \/ TWrite \/ TLim \/ TUpd \/ TTxn \/ TNoGraph \/ TExt \/ TParity \/ TAccept \/ TTruth3 \/ TCmp \/ TArith \/ TOrder \/ TAgg \/ TErr \/ TPart \/ TOtherCase
Spec == Init /\ [][Next]_vars

TraceAccepted ==
  LET d == TLCGet("stats").diameter IN
  IF d - 1 = Len(Rec) THEN TRUE
  ELSE Print(<<"UNCONSUMED", d, Len(Rec), IF d <= Len(Rec) THEN Rec[d].ev ELSE "eof">>, FALSE)
=============================================================================
