------------------------------- MODULE WalTail -------------------------------
(***************************************************************************)
(* The log file across crashes that leave arbitrary bytes at its end (C17).*)
(*                                                                         *)
(* A log is a sequence of cells.  <<"rec", k, t>> is a well-formed record  *)
(* (k = "B" begin, "O" operation, "C" commit of transaction t); the other  *)
(* cells are what a crash or a hostile writer can leave behind:            *)
(*   "zero"   a length field of 0 (zero-filled space)                      *)
(*   "huge"   a length field beyond the record limit                       *)
(*   "short"  a header announcing more bytes than follow (only at the end) *)
(*   "crc"    a complete record whose checksum does not match              *)
(* WalReader::next_record returns None at the first such cell and its      *)
(* offset stays at the end of the last good record.  Open =                *)
(* truncate_torn_tail (cut at the reader's offset) + replay_committed      *)
(* (BeginTx clears the pending operations; CommitTx must match).           *)
(* Later commits append behind whatever the truncation left.               *)
(*   OffsetPastBadCrc = TRUE models a reader that advances its offset over *)
(*   a record before checking the checksum (must fail).                    *)
(***************************************************************************)
EXTENDS Naturals, Sequences, FiniteSets, TLC

CONSTANTS MaxTx, MaxCrashes, OffsetPastBadCrc
Junk == {"zero", "huge", "short", "crc"}
VARIABLES log, acked, nextTx, open, visible, crashes, openFailed
vars == <<log, acked, nextTx, open, visible, crashes, openFailed>>

IsRec(c) == c[1] = "rec"
RECURSIVE GoodPrefixLen(_, _)
GoodPrefixLen(l, i) == IF i > Len(l) \/ ~IsRec(l[i]) THEN i - 1 ELSE GoodPrefixLen(l, i + 1)
(* where the reader's offset ends up *)
ReaderOffset(l) ==
  LET g == GoodPrefixLen(l, 1)
  IN IF OffsetPastBadCrc /\ g < Len(l) /\ l[g + 1][1] = "crc" THEN g + 1 ELSE g
(* replay_committed over the records the reader returns (it still stops at the first junk cell) *)
RECURSIVE Replay(_, _, _, _)
Replay(l, i, cur, out) ==      \* cur = open transaction or 0; out = <<ok, committed set>>
  IF i > GoodPrefixLen(l, 1) THEN <<TRUE, out>>
  ELSE LET c == l[i] IN
       IF c[2] = "B" THEN Replay(l, i + 1, c[3], out)
       ELSE IF c[2] = "C" THEN (IF cur # c[3] THEN <<FALSE, out>> ELSE Replay(l, i + 1, 0, out \cup {c[3]}))
       ELSE (IF cur = 0 THEN <<FALSE, out>> ELSE Replay(l, i + 1, cur, out))

Init == log = <<>> /\ acked = {} /\ nextTx = 1 /\ open = TRUE /\ visible = {} /\ crashes = 0 /\ openFailed = FALSE

TxRecs(t) == <<<<"rec", "B", t>>, <<"rec", "O", t>>, <<"rec", "C", t>>>>
(* a commit that completes (append + fsync): acknowledged *)
Commit == /\ open /\ nextTx <= MaxTx
          /\ log' = log \o TxRecs(nextTx)
          /\ acked' = acked \cup {nextTx} /\ visible' = visible \cup {nextTx}
          /\ nextTx' = nextTx + 1
          /\ UNCHANGED <<open, crashes, openFailed>>
(* a crash in the middle of a commit's append: some whole records of it, then possibly junk *)
CrashInCommit(n, j) ==
  /\ open /\ nextTx <= MaxTx /\ crashes < MaxCrashes
  /\ log' = log \o SubSeq(TxRecs(nextTx), 1, n) \o (IF j = "none" THEN <<>> ELSE <<<<j>>>>)
  /\ nextTx' = nextTx + 1 /\ open' = FALSE /\ crashes' = crashes + 1
  /\ UNCHANGED <<acked, visible, openFailed>>
(* a crash while idle, junk appended by whatever wrote last *)
CrashIdle(j) ==
  /\ open /\ crashes < MaxCrashes
  /\ log' = log \o <<<<j>>>> /\ open' = FALSE /\ crashes' = crashes + 1
  /\ UNCHANGED <<acked, visible, nextTx, openFailed>>
Reopen ==
  /\ ~open
  /\ LET cut == SubSeq(log, 1, ReaderOffset(log))          \* truncate_torn_tail
         r == Replay(cut, 1, 0, {})
     IN /\ log' = cut
        /\ openFailed' = ~r[1]
        /\ visible' = r[2]
        /\ open' = TRUE
  /\ UNCHANGED <<acked, nextTx, crashes>>

Next == Commit \/ Reopen
        \/ (\E n \in 0..2, j \in Junk \cup {"none"} : CrashInCommit(n, j))
        \/ (\E j \in Junk : CrashIdle(j))
Spec == Init /\ [][Next]_vars

(* C17 *)
OpensAlways == ~openFailed
SeesExactlyTheAcknowledged == open => visible = acked
NoJunkSurvivesOpen == open => \A i \in 1..Len(log) : IsRec(log[i])
=============================================================================
