--------------------------- MODULE OrderedKeyTrace ---------------------------
(***************************************************************************)
(* Binding of OrderedKey to the real encoder (C27): the driver records     *)
(* encode_ordered_value(v) for lists of real values; for every pair of     *)
(* values of one kind the byte order of the encodings must be the order of *)
(* the values (integers exactly, floats as the numbers they denote with    *)
(* -0.0 = 0.0, strings and blobs by bytes), equal exactly when the values  *)
(* are equal, and no encoding may be a proper prefix of another.           *)
(***************************************************************************)
EXTENDS CypherVal, Json, IOUtils, SequencesExt, FiniteSetsExt

Rec == ndJsonDeserialize(IOEnv.TRACE)
VARIABLE l
Init == l = 1
Emit(f) == PrintT(<<"FINDING", ToJson(f)>>)

KCmp(a, b) ==
  CASE a[1] = "int" -> BigCmp(a[2], b[2])
    [] a[1] = "float" -> NumCmp(a, b)
    [] a[1] = "bool" -> IF a[2] = b[2] THEN 0 ELSE IF b[2] THEN -1 ELSE 1
    [] a[1] = "null" -> 0
    [] OTHER -> SeqCmpNat(a[2], b[2], 1)     \* str (code points < 128 = bytes) and blob

IsProperPrefix(a, b) == Len(a) < Len(b) /\ SubSeq(b, 1, Len(a)) = a

TKeys ==
  /\ l <= Len(Rec) /\ Rec[l].ev = "keys"
  /\ LET vs == Rec[l].vals enc == Rec[l].enc n == Len(vs) fo == Rec[l].ford
         ok(v) == ~IsNaN(v)
         (* numbers outside the exact range of CypherVal (tiny and huge magnitudes) are ordered by their IEEE representation: *)
         (* sign, then the magnitude bits (three limbs), reversed for negative numbers; both zeros are equal                 *)
         MagCmp3(x, y) == IF x[2] # y[2] THEN (IF x[2] < y[2] THEN -1 ELSE 1)
                          ELSE IF x[3] # y[3] THEN (IF x[3] < y[3] THEN -1 ELSE 1)
                          ELSE IF x[4] # y[4] THEN (IF x[4] < y[4] THEN -1 ELSE 1) ELSE 0
         IeeeCmp(x, y) == IF x[1] # y[1] THEN (IF x[1] < y[1] THEN -1 ELSE 1)
                          ELSE IF x[1] >= 0 THEN MagCmp3(x, y) ELSE 0 - MagCmp3(x, y)
         Cmp(i, j) == IF vs[i][1] = "float" /\ (IsOpaqueFloat(vs[i]) \/ IsOpaqueFloat(vs[j])) THEN IeeeCmp(fo[i], fo[j])
                      ELSE KCmp(vs[i], vs[j])
         badOrder == {p \in (1..n) \X (1..n) :
                        vs[p[1]][1] = vs[p[2]][1] /\ ok(vs[p[1]]) /\ ok(vs[p[2]]) /\
                        SeqCmpNat(enc[p[1]], enc[p[2]], 1) # Cmp(p[1], p[2])}
         badPrefix == {p \in (1..n) \X (1..n) : IsProperPrefix(enc[p[1]], enc[p[2]])}
     IN /\ (IF badOrder = {} THEN TRUE ELSE
              LET p == CHOOSE q \in badOrder : TRUE IN
              Emit([prop |-> "C27", at |-> l,
                    kind |-> IF Cmp(p[1], p[2]) = 0 THEN "equal-values-different-keys"
                             ELSE IF enc[p[1]] = enc[p[2]] THEN "different-values-equal-keys" ELSE "order-not-preserved",
                    a |-> vs[p[1]], b |-> vs[p[2]], ea |-> enc[p[1]], eb |-> enc[p[2]], count |-> Cardinality(badOrder)]))
        /\ (IF badPrefix = {} THEN TRUE ELSE
              LET p == CHOOSE q \in badPrefix : TRUE IN
              Emit([prop |-> "C27", at |-> l, kind |-> "proper-prefix", a |-> vs[p[1]], b |-> vs[p[2]],
                    ea |-> enc[p[1]], eb |-> enc[p[2]], count |-> Cardinality(badPrefix)]))
  /\ l' = l + 1
Next == TKeys
Spec == Init /\ [][Next]_l
TraceAccepted ==
  LET d == TLCGet("stats").diameter IN
  IF d - 1 = Len(Rec) THEN TRUE ELSE Print(<<"UNCONSUMED", d, Len(Rec)>>, FALSE)
=============================================================================
