------------------------------ MODULE OrderedKey ------------------------------
(***************************************************************************)
(* The order-preserving index key encoding (C27), transcribed from         *)
(* nervusdb-storage/src/index/ordered_key.rs at reduced width so that TLC  *)
(* can enumerate every value:                                              *)
(*   integers  W-bit two's complement  -> tag 2, value + 2^(W-1) big endian *)
(*   floats    1+3+2-bit minifloat     -> tag 3, sign dependent transform   *)
(*   strings   over {0, 1, 255}, len<=3 -> tag 4, 0 stuffed as <<0,255>>,   *)
(*                                         terminator <<0,0>>               *)
(*   booleans                           -> tag 1, 0 / 1                     *)
(* The algorithm is uniform in the width, which is the assumption under    *)
(* which the exhaustive small run speaks for the 64-bit code; the binding  *)
(* to the real bytes is OrderedKeyTrace.                                   *)
(***************************************************************************)
EXTENDS Integers, Sequences, FiniteSets, TLC

CONSTANT NormalizeNegZero   \* TRUE: what the code does (-0.0 encoded as 0.0)

W == 4
Ints == -(2^(W-1))..(2^(W-1) - 1)
FloatBits == 0..63
Sign(b) == b \div 32
Low(b) == b % 32
IsNaNBits(b) == (Low(b) \div 4) = 7 /\ (b % 4) # 0
Floats == {b \in FloatBits : ~IsNaNBits(b)}
FKey(b) == IF Sign(b) = 0 THEN Low(b) ELSE 0 - Low(b)          \* numeric order of non-NaN minifloats
Alphabet == {0, 1, 255}
Strs == UNION {[1..n -> Alphabet] : n \in 0..3}

Value == [k : {"int"}, v : Ints] \cup [k : {"float"}, v : Floats] \cup [k : {"str"}, v : Strs]
         \cup [k : {"bool"}, v : BOOLEAN]

RECURSIVE Stuff(_, _)
Stuff(s, i) == IF i > Len(s) THEN <<0, 0>>
               ELSE (IF s[i] = 0 THEN <<0, 255>> ELSE <<s[i]>>) \o Stuff(s, i + 1)

EncFloat(b) ==
  LET c == IF NormalizeNegZero /\ Low(b) = 0 THEN 0 ELSE b
  IN IF Sign(c) = 1 THEN 63 - c ELSE c + 32

Enc(x) ==
  CASE x.k = "bool" -> <<1, IF x.v THEN 1 ELSE 0>>
    [] x.k = "int" -> <<2, x.v + 2^(W-1)>>
    [] x.k = "float" -> <<3, EncFloat(x.v)>>
    [] x.k = "str" -> <<4>> \o Stuff(x.v, 1)

RECURSIVE SeqCmp(_, _, _)
SeqCmp(a, b, i) ==
  IF i > Len(a) /\ i > Len(b) THEN 0
  ELSE IF i > Len(a) THEN -1 ELSE IF i > Len(b) THEN 1
  ELSE IF a[i] < b[i] THEN -1 ELSE IF a[i] > b[i] THEN 1 ELSE SeqCmp(a, b, i + 1)

ValCmp(x, y) ==   \* same kind
  CASE x.k = "bool" -> IF x.v = y.v THEN 0 ELSE IF y.v THEN -1 ELSE 1
    [] x.k = "int" -> IF x.v < y.v THEN -1 ELSE IF x.v > y.v THEN 1 ELSE 0
    [] x.k = "float" -> IF FKey(x.v) < FKey(y.v) THEN -1 ELSE IF FKey(x.v) > FKey(y.v) THEN 1 ELSE 0
    [] x.k = "str" -> SeqCmp(x.v, y.v, 1)

IsProperPrefix(a, b) == Len(a) < Len(b) /\ SubSeq(b, 1, Len(a)) = a

VARIABLES x, y
Init == x \in Value /\ y \in Value
Next == UNCHANGED <<x, y>>
Spec == Init /\ [][Next]_<<x, y>>

OrderPreserved == x.k = y.k => SeqCmp(Enc(x), Enc(y), 1) = ValCmp(x, y)
PrefixFree == ~IsProperPrefix(Enc(x), Enc(y))
=============================================================================
