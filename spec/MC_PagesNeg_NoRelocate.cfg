SPECIFICATION Spec
CONSTANTS MaxPage = 9
 RPP = 2
 MaxLen = 7
 Others = {"csr", "btree"}
 Relocate = FALSE
INVARIANT ContentOwned
INVARIANT I2eReadable
INVARIANT MarkBounds
CHECK_DEADLOCK FALSE
