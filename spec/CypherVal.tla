------------------------------ MODULE CypherVal ------------------------------
(***************************************************************************)
(* Cypher values and the laws the listed properties state about them.      *)
(* Oracle module: nothing here mentions the engine.                        *)
(*                                                                         *)
(* A value is a tuple whose first element is its tag (TLC cannot compare   *)
(* values of different kinds, so payloads are only looked at after the     *)
(* tags were found equal):                                                 *)
(*   <<"null">>  <<"bool", b>>  <<"int", BIG>>  <<"float", F>>             *)
(*   <<"str", <<code points>>>>  <<"list", <<v..>>>>                       *)
(*   <<"map", << <<key code points, v>> .. >>>>   (sorted by key)          *)
(*   <<"node", id>>  <<"rel", <<src,type,dst>>>>  <<"path", ..>>           *)
(*   <<"other", text>>                                                     *)
(* BIG is an exact integer [s |-> -1|0|1, m |-> limbs], limbs little       *)
(* endian in base 10^4 (every intermediate product fits TLC's 32-bit       *)
(* integers).  F is an exact dyadic rational n / 2^e, or one of the        *)
(* special kinds nan / pinf / ninf, or "other" (a finite double outside    *)
(* the window the drivers decompose; such values are never generated as    *)
(* inputs and are treated as opaque).                                      *)
(***************************************************************************)
EXTENDS Integers, Sequences, FiniteSets, TLC

Base == 10000

(***************************************************************************)
(* Magnitudes                                                              *)
(***************************************************************************)
RECURSIVE MagStrip(_)
MagStrip(m) == IF Len(m) > 1 /\ m[Len(m)] = 0 THEN MagStrip(SubSeq(m, 1, Len(m) - 1)) ELSE m

RECURSIVE MagCmpFrom(_, _, _)
MagCmpFrom(a, b, i) ==
  IF i = 0 THEN 0
  ELSE IF a[i] < b[i] THEN -1 ELSE IF a[i] > b[i] THEN 1 ELSE MagCmpFrom(a, b, i - 1)
MagCmp(a, b) ==
  IF Len(a) < Len(b) THEN -1 ELSE IF Len(a) > Len(b) THEN 1 ELSE MagCmpFrom(a, b, Len(a))

Limb(m, i) == IF i <= Len(m) THEN m[i] ELSE 0

RECURSIVE MagAddFrom(_, _, _, _, _)
MagAddFrom(a, b, i, carry, acc) ==
  IF i > Len(a) /\ i > Len(b) THEN (IF carry > 0 THEN Append(acc, carry) ELSE acc)
  ELSE LET s == Limb(a, i) + Limb(b, i) + carry
       IN MagAddFrom(a, b, i + 1, s \div Base, Append(acc, s % Base))
MagAdd(a, b) == MagAddFrom(a, b, 1, 0, <<>>)

(* requires a >= b *)
RECURSIVE MagSubFrom(_, _, _, _, _)
MagSubFrom(a, b, i, borrow, acc) ==
  IF i > Len(a) THEN MagStrip(acc)
  ELSE LET d == a[i] - Limb(b, i) - borrow
       IN IF d < 0 THEN MagSubFrom(a, b, i + 1, 1, Append(acc, d + Base))
                   ELSE MagSubFrom(a, b, i + 1, 0, Append(acc, d))
MagSub(a, b) == MagSubFrom(a, b, 1, 0, <<>>)

(* 0 <= k <= Base *)
RECURSIVE MagMulSmallFrom(_, _, _, _, _)
MagMulSmallFrom(a, k, i, carry, acc) ==
  IF i > Len(a) THEN MagStrip(IF carry > 0 THEN Append(acc, carry) ELSE acc)
  ELSE LET p == a[i] * k + carry
       IN MagMulSmallFrom(a, k, i + 1, p \div Base, Append(acc, p % Base))
MagMulSmall(a, k) == IF k = 0 THEN <<0>> ELSE MagMulSmallFrom(a, k, 1, 0, <<>>)

MagShift(a, n) == IF n = 0 \/ a = <<0>> THEN a ELSE [i \in 1..n |-> 0] \o a

RECURSIVE MagMulFrom(_, _, _, _)
MagMulFrom(a, b, i, acc) ==
  IF i > Len(b) THEN acc
  ELSE MagMulFrom(a, b, i + 1, MagAdd(acc, MagShift(MagMulSmall(a, b[i]), i - 1)))
MagMul(a, b) == MagStrip(MagMulFrom(a, b, 1, <<0>>))

(***************************************************************************)
(* Exact integers                                                          *)
(***************************************************************************)
BigZero == [s |-> 0, m |-> <<0>>]
BigOne  == [s |-> 1, m |-> <<1>>]
Big(s, m) == IF m = <<0>> THEN BigZero ELSE [s |-> s, m |-> m]

(* a native TLC integer (|x| < 2^31) as BIG *)
RECURSIVE NatLimbs(_)
NatLimbs(x) == IF x < Base THEN <<x>> ELSE <<x % Base>> \o NatLimbs(x \div Base)
ToBig(x) == IF x = 0 THEN BigZero ELSE IF x > 0 THEN [s |-> 1, m |-> NatLimbs(x)]
                                                 ELSE [s |-> -1, m |-> NatLimbs(-x)]
(* a BIG known to be small, as a native integer *)
RECURSIVE LimbsNat(_, _)
LimbsNat(m, i) == IF i > Len(m) THEN 0 ELSE m[i] + Base * LimbsNat(m, i + 1)
SmallBig(b) == b.s * LimbsNat(b.m, 1)

BigCmp(a, b) ==
  IF a.s < b.s THEN -1 ELSE IF a.s > b.s THEN 1
  ELSE IF a.s = 0 THEN 0
  ELSE IF a.s = 1 THEN MagCmp(a.m, b.m) ELSE MagCmp(b.m, a.m)
BigNeg(a) == [s |-> 0 - a.s, m |-> a.m]
BigAbs(a) == [s |-> IF a.s = 0 THEN 0 ELSE 1, m |-> a.m]
BigAdd(a, b) ==
  IF a.s = 0 THEN b ELSE IF b.s = 0 THEN a
  ELSE IF a.s = b.s THEN [s |-> a.s, m |-> MagAdd(a.m, b.m)]
  ELSE LET c == MagCmp(a.m, b.m)
       IN IF c = 0 THEN BigZero
          ELSE IF c > 0 THEN [s |-> a.s, m |-> MagSub(a.m, b.m)]
          ELSE [s |-> b.s, m |-> MagSub(b.m, a.m)]
BigSub(a, b) == BigAdd(a, BigNeg(b))
BigMul(a, b) == IF a.s = 0 \/ b.s = 0 THEN BigZero ELSE [s |-> a.s * b.s, m |-> MagMul(a.m, b.m)]
BigMulSmall(a, k) == IF a.s = 0 \/ k = 0 THEN BigZero ELSE [s |-> a.s, m |-> MagMulSmall(a.m, k)]
RECURSIVE BigMulPow2(_, _)
BigMulPow2(a, e) ==
  IF e = 0 \/ a.s = 0 THEN a
  ELSE IF e >= 13 THEN BigMulPow2(BigMulSmall(a, 8192), e - 13)
  ELSE BigMulPow2(BigMulSmall(a, 2), e - 1)

I64Max == [s |-> 1,  m |-> <<5807, 5477, 368, 3372, 922>>]
I64Min == [s |-> -1, m |-> <<5808, 5477, 368, 3372, 922>>]
InI64(b) == BigCmp(b, I64Min) >= 0 /\ BigCmp(b, I64Max) <= 0

(***************************************************************************)
(* Value classification                                                    *)
(***************************************************************************)
Null == <<"null">>
T == <<"bool", TRUE>>
F == <<"bool", FALSE>>
Tag(v) == v[1]
IsNull(v) == v[1] = "null"
IsBool(v) == v[1] = "bool"
IsInt(v) == v[1] = "int"
IsFloat(v) == v[1] = "float"
IsNum(v) == v[1] = "int" \/ v[1] = "float"
IsNaN(v) == v[1] = "float" /\ v[2].k = "nan"
IsOpaqueFloat(v) == v[1] = "float" /\ v[2].k = "other"
(* numbers whose exact value the specification knows *)
IsExactNum(v) == v[1] = "int" \/ (v[1] = "float" /\ v[2].k \in {"fin", "pinf", "ninf"})
IsFiniteNum(v) == v[1] = "int" \/ (v[1] = "float" /\ v[2].k = "fin")

RECURSIVE HasInside(_, _)
(* does the value contain (at any depth, itself included) a value of kind `what` *)
HasInside(v, what) ==
  \/ (what = "null" /\ v[1] = "null")
  \/ (what = "nan" /\ IsNaN(v))
  \/ (what = "opaque" /\ (v[1] = "other" \/ IsOpaqueFloat(v)))
  \/ (v[1] = "list" /\ \E i \in 1..Len(v[2]) : HasInside(v[2][i], what))
  \/ (v[1] = "map" /\ \E i \in 1..Len(v[2]) : HasInside(v[2][i][2], what))
(* values on which equality must be an equivalence *)
Plain(v) == ~HasInside(v, "null") /\ ~HasInside(v, "nan") /\ ~HasInside(v, "opaque")

(***************************************************************************)
(* Three-valued logic (C23)                                                *)
(***************************************************************************)
Not3(a) == IF IsNull(a) THEN Null ELSE IF a[2] THEN F ELSE T
And3(a, b) ==
  IF (IsBool(a) /\ ~a[2]) \/ (IsBool(b) /\ ~b[2]) THEN F
  ELSE IF IsNull(a) \/ IsNull(b) THEN Null ELSE T
Or3(a, b) ==
  IF (IsBool(a) /\ a[2]) \/ (IsBool(b) /\ b[2]) THEN T
  ELSE IF IsNull(a) \/ IsNull(b) THEN Null ELSE F
Xor3(a, b) ==
  IF IsNull(a) \/ IsNull(b) THEN Null ELSE IF a[2] # b[2] THEN T ELSE F
Truth == <<T, F, Null>>
IsTruth(v) == IsNull(v) \/ IsBool(v)

(***************************************************************************)
(* Exact numeric comparison (Int and Float compared as the numbers they    *)
(* denote).  Defined for exact, non-NaN numbers.                           *)
(***************************************************************************)
NumN(v) == IF v[1] = "int" THEN v[2] ELSE v[2].n
NumE(v) == IF v[1] = "int" THEN 0 ELSE v[2].e
NumClass(v) == IF v[1] = "int" THEN 0
               ELSE IF v[2].k = "ninf" THEN -1 ELSE IF v[2].k = "pinf" THEN 1 ELSE 0
NumCmp(x, y) ==
  LET cx == NumClass(x) cy == NumClass(y) IN
  IF cx # cy THEN (IF cx < cy THEN -1 ELSE 1)
  ELSE IF cx # 0 THEN 0
  ELSE BigCmp(BigMulPow2(NumN(x), NumE(y)), BigMulPow2(NumN(y), NumE(x)))

(***************************************************************************)
(* Orderability: the total preorder ORDER BY sorts by (C20).               *)
(* MAP < NODE < RELATIONSHIP < LIST < PATH < STRING < BOOLEAN < NUMBER     *)
(* (NaN above every other number) < NULL.                                  *)
(* Comparable(a,b) is false where the order between two values is not      *)
(* fixed by the language (two different maps, nodes, relationships,        *)
(* paths, opaque values): generators put at most one such value into a      *)
(* list, and the checks skip pairs that are not comparable.                *)
(***************************************************************************)
Rank(v) ==
  CASE v[1] = "map" -> 0 [] v[1] = "node" -> 1 [] v[1] = "rel" -> 2 [] v[1] = "list" -> 3
    [] v[1] = "path" -> 4 [] v[1] = "str" -> 5 [] v[1] = "bool" -> 6
    [] v[1] = "int" -> 7 [] v[1] = "float" -> 7 [] v[1] = "null" -> 10 [] OTHER -> 9

RECURSIVE SeqCmpNat(_, _, _)
SeqCmpNat(a, b, i) ==
  IF i > Len(a) /\ i > Len(b) THEN 0
  ELSE IF i > Len(a) THEN -1 ELSE IF i > Len(b) THEN 1
  ELSE IF a[i] < b[i] THEN -1 ELSE IF a[i] > b[i] THEN 1 ELSE SeqCmpNat(a, b, i + 1)

RECURSIVE OrdCmp(_, _), OrdCmpList(_, _, _), Comparable(_, _)
Comparable(a, b) ==
  IF Rank(a) # Rank(b) THEN TRUE
  ELSE IF a = b THEN TRUE
  ELSE CASE a[1] \in {"str", "bool", "null"} -> TRUE
         [] IsNum(a) -> ~IsOpaqueFloat(a) /\ ~IsOpaqueFloat(b)
         [] a[1] = "list" ->
              \A i \in 1..(IF Len(a[2]) < Len(b[2]) THEN Len(a[2]) ELSE Len(b[2])) :
                 Comparable(a[2][i], b[2][i])
         [] a[1] = "node" -> a[2] = b[2]
         [] a[1] = "rel" -> a[2] = b[2]
         [] OTHER -> FALSE
OrdCmp(a, b) ==
  IF Rank(a) # Rank(b) THEN (IF Rank(a) < Rank(b) THEN -1 ELSE 1)
  ELSE CASE a[1] = "str" -> SeqCmpNat(a[2], b[2], 1)
         [] a[1] = "bool" -> IF a[2] = b[2] THEN 0 ELSE IF b[2] THEN -1 ELSE 1
         [] IsNum(a) -> IF IsNaN(a) THEN (IF IsNaN(b) THEN 0 ELSE 1)
                        ELSE IF IsNaN(b) THEN -1 ELSE NumCmp(a, b)
         [] a[1] = "list" -> OrdCmpList(a[2], b[2], 1)
         [] OTHER -> 0
OrdCmpList(a, b, i) ==
  IF i > Len(a) /\ i > Len(b) THEN 0
  ELSE IF i > Len(a) THEN -1 ELSE IF i > Len(b) THEN 1
  ELSE LET c == OrdCmp(a[i], b[i]) IN IF c # 0 THEN c ELSE OrdCmpList(a, b, i + 1)

(* composite sort keys: ks1, ks2 sequences of values, dirs sequence of 1 (ASC) / -1 (DESC) *)
RECURSIVE KeyCmp(_, _, _, _)
KeyCmp(k1, k2, dirs, i) ==
  IF i > Len(dirs) THEN 0
  ELSE LET c == OrdCmp(k1[i], k2[i]) * dirs[i] IN IF c # 0 THEN c ELSE KeyCmp(k1, k2, dirs, i + 1)
KeyComparable(k1, k2) == \A i \in 1..Len(k1) : Comparable(k1[i], k2[i])

(***************************************************************************)
(* Integer arithmetic (exact) and the overflow classes (C23, C21)          *)
(***************************************************************************)
ExactIntOp(op, a, b) ==
  CASE op = "add" -> BigAdd(a, b) [] op = "sub" -> BigSub(a, b) [] op = "mul" -> BigMul(a, b)
    [] op = "neg" -> BigNeg(a) [] op = "abs" -> BigAbs(a) [] op = "sum" -> BigAdd(a, b)

(* |f - x| <= |x| / 2^50 for a finite float f = n/2^e and an exact integer x *)
FloatNear(f, x) ==
  f[1] = "float" /\ f[2].k = "fin" /\
  LET lhs == BigAbs(BigSub(f[2].n, BigMulPow2(x, f[2].e)))
  IN BigCmp(BigMulPow2(lhs, 50), BigMulPow2(BigAbs(x), f[2].e)) <= 0

(* how an engine answered an integer operation whose exact result is x *)
OverflowClass(cell, x) ==
  CASE cell[1] = "int" -> (IF cell[2] = x THEN "exact" ELSE "wrapped")
    [] cell[1] = "float" -> (IF FloatNear(cell, x) THEN "float" ELSE IF cell[2].k = "other" THEN "float?" ELSE "float-wrong")
    [] cell[1] = "null" -> "null"
    [] OTHER -> "other"
=============================================================================
