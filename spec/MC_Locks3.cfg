SPECIFICATION Spec
CONSTANT K = 3
INVARIANT ReleasedAtEnd
