------------------------------- MODULE Storage -------------------------------
(***************************************************************************)
(* Implementation-shaped model of the nervusdb storage engine.             *)
(*                                                                         *)
(* One action per critical section / I/O step of the code, named after the *)
(* function it models (engine.rs commit / compact / checkpoint_on_close /  *)
(* open, wal.rs, pager.rs, idmap.rs, memtable.rs, read_path_*.rs).         *)
(* The abstract graph of GraphAbs is carried as ghost state (hist) and the *)
(* properties are stated as "what the read path would return from the      *)
(* volatile state" (View) versus the ghost.                                *)
(*                                                                         *)
(* Disk                                                                    *)
(*   wal, walS, torn   log as a sequence of records, fsync watermark,      *)
(*                     partial record at the tail                          *)
(*   ndb, ndbS         page file (current / as of last sync_data):         *)
(*                     node table, its length in the header, persisted     *)
(*                     segments, property tree (entries with stamps)       *)
(*   tmp, tmpS, renamed  log rewrite on close (temp file, rename)          *)
(* Volatile engine (one open handle)                                       *)
(*   open, runs, segs, i2e, i2l, pubLab, ckpt, nextTx, epoch, ptOn, pc     *)
(* Ghost                                                                   *)
(*   hist, acked, crashAcked, recov, nCommit, nCompact, nCrash, nReopen    *)
(***************************************************************************)
EXTENDS GraphAbs, Integers, TLC, FiniteSetsExt, SequencesExt

CONSTANTS
  MaxNodes, Vals, MaxTx, MaxCompact, MaxCrash, MaxReopen,
  CrashKinds,          \* subset of {"process", "power"}
  AllowDelNode, AllowDelEdge, AllowRem, AllowLabel, AllowRecreate, AllowOverwrite,
  TruncateTornTail,    \* recovery cuts a torn tail (the repaired code: TRUE)
  StatsAllocSyncs,     \* the statistics blob allocation syncs the page file (code: TRUE)
  SyncBeforeManifest,  \* pager.sync() after the segment pages are written (code: TRUE)
  FsyncOnCommit        \* wal.fsync() before commit returns (code: TRUE)

VARIABLES wal, walS, torn, ndb, ndbS, tmp, tmpS, renamed,
          open, runs, segs, i2e, i2l, pubLab, ckpt, nextTx, epoch, ptOn, pc,
          hist, acked, crashAcked, recov, cnt

disk == <<wal, walS, torn, ndb, ndbS, tmp, tmpS, renamed>>
vol  == <<open, runs, segs, i2e, i2l, pubLab, ckpt, nextTx, epoch, ptOn>>
vars == <<wal, walS, torn, ndb, ndbS, tmp, tmpS, renamed,
          open, runs, segs, i2e, i2l, pubLab, ckpt, nextTx, epoch, ptOn, pc,
          hist, acked, crashAcked, recov, cnt>>

Labels == {"A", "B"}
Key == "p"
Typ == "R"

EmptyNdb == [i2e |-> <<>>, i2eLen |-> 0, segs |-> {}, pt |-> {}, ptN |-> 0]
EmptyRun == [txid |-> 0, edges |-> {}, tn |-> {}, te |-> {}, np |-> {}, rnp |-> {}, ep |-> {}, rep |-> {}]
Idle == [op |-> "idle", step |-> "idle"]

Init ==
  /\ wal = <<>> /\ walS = 0 /\ torn = -1
  /\ ndb = EmptyNdb /\ ndbS = EmptyNdb
  /\ tmp = <<>> /\ tmpS = FALSE /\ renamed = <<FALSE, <<>>, 0>>
  /\ open = TRUE /\ runs = <<>> /\ segs = <<>> /\ i2e = <<>> /\ i2l = <<>> /\ pubLab = <<>>
  /\ ckpt = 0 /\ nextTx = 1 /\ epoch = 0 /\ ptOn = FALSE /\ pc = Idle
  /\ hist = <<EmptyGraph>> /\ acked = 1 /\ crashAcked = 1 /\ recov = "none"
  /\ cnt = [commit |-> 0, compact |-> 0, crash |-> 0, reopen |-> 0]

(***************************************************************************)
(* Bags of relationships as sets of <<s,t,d,c>>                            *)
(***************************************************************************)
CntOf(b, k) == IF \E r \in b : <<r[1], r[2], r[3]>> = k
               THEN (CHOOSE r \in b : <<r[1], r[2], r[3]>> = k)[4] ELSE 0
KeysOf(b) == {<<r[1], r[2], r[3]>> : r \in b}
BagAdd1(b, k) == LET c == CntOf(b, k) IN (b \ {<<k[1], k[2], k[3], c>>}) \cup {<<k[1], k[2], k[3], c + 1>>}
BagDel(b, k) == {r \in b : <<r[1], r[2], r[3]>> # k}
BagSum(b1, b2) == {<<k[1], k[2], k[3], CntOf(b1, k) + CntOf(b2, k)>> : k \in KeysOf(b1) \cup KeysOf(b2)}

(***************************************************************************)
(* memtable.rs: applying the operations of a transaction in program order  *)
(***************************************************************************)
MemOp(m, op) ==
  CASE op[1] = "CreateEdge" -> [m EXCEPT !.edges = BagAdd1(@, <<op[2], op[3], op[4]>>)]
    [] op[1] = "DelEdge" -> [m EXCEPT !.edges = BagDel(@, <<op[2], op[3], op[4]>>),
                                      !.te = @ \cup {<<op[2], op[3], op[4]>>}]
    [] op[1] = "DelNode" -> \* repaired tombstone_node: pending relationships of the node die with it
                            [m EXCEPT !.edges = {r \in @ : r[1] # op[2] /\ r[3] # op[2]},
                                      !.tn = @ \cup {op[2]}]
    [] op[1] = "SetNP" -> [m EXCEPT !.np = {x \in @ : ~(x[1] = op[2] /\ x[2] = op[3])} \cup {<<op[2], op[3], op[4]>>},
                                    !.rnp = @ \ {<<op[2], op[3]>>}]
    [] op[1] = "RemNP" -> [m EXCEPT !.np = {x \in @ : ~(x[1] = op[2] /\ x[2] = op[3])},
                                    !.rnp = @ \cup {<<op[2], op[3]>>}]
    [] op[1] = "SetEP" -> LET k == <<op[2], op[3], op[4], op[5]>> IN
                          [m EXCEPT !.ep = {x \in @ : <<x[1], x[2], x[3], x[4]>> # k} \cup {<<op[2], op[3], op[4], op[5], op[6]>>},
                                    !.rep = @ \ {k}]
    [] op[1] = "RemEP" -> LET k == <<op[2], op[3], op[4], op[5]>> IN
                          [m EXCEPT !.ep = {x \in @ : <<x[1], x[2], x[3], x[4]>> # k},
                                    !.rep = @ \cup {k}]
    [] OTHER -> m

RECURSIVE MemOps(_, _, _)
MemOps(m, ops, i) == IF i > Len(ops) THEN m ELSE MemOps(MemOp(m, ops[i]), ops, i + 1)

RunEmpty(r) == r.edges = {} /\ r.tn = {} /\ r.te = {} /\ r.np = {} /\ r.rnp = {} /\ r.ep = {} /\ r.rep = {}

(***************************************************************************)
(* WAL records of a transaction, in the order WriteTxn::commit appends     *)
(* them: nodes, label additions, label removals, edges of the frozen run,  *)
(* node tombstones, edge tombstones, property sets, property removals.     *)
(***************************************************************************)
SeqOfSet(S) == SetToSeq(S)

NodeRecs(ops, base) ==
  LET idx == SelectSeq([i \in 1..Len(ops) |-> i], LAMBDA i : ops[i][1] = "CreateNode") IN
  [j \in 1..Len(idx) |-> <<"Node", ops[idx[j]][2], ops[idx[j]][3], base + j - 1>>]

OpsOfKind(ops, kind, tag) ==
  LET sel == SelectSeq(ops, LAMBDA o : o[1] = kind) IN [j \in 1..Len(sel) |-> <<tag, sel[j][2], sel[j][3]>>]

EdgeRecs(b) ==
  \* one record per instance
  LET ks == SeqOfSet(KeysOf(b)) IN
  FlattenSeq([j \in 1..Len(ks) |-> [c \in 1..CntOf(b, ks[j]) |-> <<"Edge", ks[j][1], ks[j][2], ks[j][3]>>]])

TxRecs(txid, ops, run, base) ==
  <<<<"Begin", txid>>>>
  \o NodeRecs(ops, base)
  \o OpsOfKind(ops, "AddLabel", "AddL")
  \o OpsOfKind(ops, "RemLabel", "RemL")
  \o EdgeRecs(run.edges)
  \o [j \in 1..Cardinality(run.tn) |-> <<"TombN", SeqOfSet(run.tn)[j]>>]
  \o [j \in 1..Cardinality(run.te) |-> <<"TombE">> \o SeqOfSet(run.te)[j]]
  \o [j \in 1..Cardinality(run.np) |-> <<"SetNP">> \o SeqOfSet(run.np)[j]]
  \o [j \in 1..Cardinality(run.rnp) |-> <<"RemNP">> \o SeqOfSet(run.rnp)[j]]
  \o [j \in 1..Cardinality(run.ep) |-> <<"SetEP">> \o SeqOfSet(run.ep)[j]]
  \o [j \in 1..Cardinality(run.rep) |-> <<"RemEP">> \o SeqOfSet(run.rep)[j]]

(* replay of the records of one committed transaction into a fresh memtable (log order) *)
RecToOp(r) ==
  CASE r[1] = "Edge" -> <<"CreateEdge", r[2], r[3], r[4]>>
    [] r[1] = "TombN" -> <<"DelNode", r[2]>>
    [] r[1] = "TombE" -> <<"DelEdge", r[2], r[3], r[4]>>
    [] r[1] = "SetNP" -> <<"SetNP", r[2], r[3], r[4]>>
    [] r[1] = "RemNP" -> <<"RemNP", r[2], r[3]>>
    [] r[1] = "SetEP" -> <<"SetEP", r[2], r[3], r[4], r[5], r[6]>>
    [] r[1] = "RemEP" -> <<"RemEP", r[2], r[3], r[4], r[5]>>
    [] OTHER -> <<"nop">>

(***************************************************************************)
(* Read path (read_path_iters.rs, read_path_overlay.rs, api.rs):           *)
(* runs newest first (index 1), then segments, then the property tree.     *)
(***************************************************************************)
TombNUpTo(rs, j) == UNION {rs[i].tn : i \in 1..j}
TombEUpTo(rs, j) == UNION {rs[i].te : i \in 1..j}

RECURSIVE SumRuns(_, _, _)
SumRuns(f(_), j, n) == IF j > n THEN 0 ELSE f(j) + SumRuns(f, j + 1, n)

SegBag(sg) == IF Len(sg) = 0 THEN {} ELSE
  LET RECURSIVE Acc(_, _)
      Acc(b, i) == IF i > Len(sg) THEN b ELSE Acc(BagSum(b, sg[i].edges), i + 1)
  IN Acc({}, 1)

OutCount(rs, sg, k) ==
  LET s == k[1] d == k[3] n == Len(rs)
      fr(j) == IF s \in TombNUpTo(rs, j) THEN 0
               ELSE IF d \in TombNUpTo(rs, j - 1) \/ k \in TombEUpTo(rs, j - 1) THEN 0
               ELSE CntOf(rs[j].edges, k)
      fs == IF s \in TombNUpTo(rs, n) THEN 0
            ELSE IF d \in TombNUpTo(rs, n) \/ k \in TombEUpTo(rs, n) THEN 0
            ELSE CntOf(SegBag(sg), k)
  IN SumRuns(fr, 1, n) + fs

InCount(rs, sg, k) ==
  LET s == k[1] d == k[3] n == Len(rs)
      fr(j) == IF d \in TombNUpTo(rs, j) THEN 0
               ELSE IF s \in TombNUpTo(rs, j - 1) \/ k \in TombEUpTo(rs, j - 1) THEN 0
               ELSE CntOf(rs[j].edges, k)
      fs == IF d \in TombNUpTo(rs, n) THEN 0
            ELSE IF s \in TombNUpTo(rs, n) \/ k \in TombEUpTo(rs, n) THEN 0
            ELSE CntOf(SegBag(sg), k)
  IN SumRuns(fr, 1, n) + fs

AllKeys(rs, sg) == UNION {KeysOf(rs[j].edges) : j \in 1..Len(rs)} \cup KeysOf(SegBag(sg))

(* newest tree entry of a key: <<pkey, stamp, val>> with the largest stamp *)
TreeVal(pt, pk) ==
  LET es == {e \in pt : e[1] = pk} IN
  IF es = {} THEN <<>> ELSE <<(CHOOSE e \in es : \A f \in es : f[2] <= e[2])[3]>>

(* node_property: first run that removes the key -> fall through to the tree (both are None);
   first run that has a value -> that value *)
RECURSIVE RunNP(_, _, _, _)
RunNP(rs, j, n, k) ==
  IF j > Len(rs) THEN <<>>
  ELSE IF <<n, k>> \in rs[j].rnp THEN <<>>
  ELSE IF \E x \in rs[j].np : x[1] = n /\ x[2] = k
       THEN <<(CHOOSE x \in rs[j].np : x[1] = n /\ x[2] = k)[3]>>
       ELSE RunNP(rs, j + 1, n, k)

RECURSIVE RunEP(_, _, _, _)
RunEP(rs, j, e, k) ==
  IF j > Len(rs) THEN <<>>
  ELSE IF <<e[1], e[2], e[3], k>> \in rs[j].rep THEN <<>>
  ELSE IF \E x \in rs[j].ep : <<x[1], x[2], x[3]>> = e /\ x[4] = k
       THEN <<(CHOOSE x \in rs[j].ep : <<x[1], x[2], x[3]>> = e /\ x[4] = k)[5]>>
       ELSE RunEP(rs, j + 1, e, k)

NP1(rs, pt, on, n, k) ==
  LET r == RunNP(rs, 1, n, k) IN
  IF r # <<>> THEN r ELSE IF on THEN TreeVal(pt, <<"n", n, k>>) ELSE <<>>

EP1(rs, pt, on, e, k) ==
  LET r == RunEP(rs, 1, e, k) IN
  IF r # <<>> THEN r ELSE IF on THEN TreeVal(pt, <<"e", e[1], e[2], e[3], k>>) ELSE <<>>

(* node_properties: merge newest first; a key resolved by a removal marker is skipped in the
   runs, but the tree is then consulted for every key not already present *)
RECURSIVE MergeNP(_, _, _, _, _)
MergeNP(rs, j, n, resolved, acc) ==
  IF j > Len(rs) THEN acc
  ELSE LET res1 == resolved \cup {x[2] : x \in {y \in rs[j].rnp : y[1] = n}}
           new == {x \in rs[j].np : x[1] = n /\ x[2] \notin res1}
       IN MergeNP(rs, j + 1, n, res1 \cup {x[2] : x \in new}, acc \cup new)

NPM(rs, pt, on, n) ==
  LET m == MergeNP(rs, 1, n, {}, {})
      have == {x[2] : x \in m}
      tk == IF on THEN {e[1][3] : e \in {f \in pt : f[1][1] = "n" /\ f[1][2] = n}} ELSE {}
  IN m \cup {<<n, k, TreeVal(pt, <<"n", n, k>>)[1]>> : k \in tk \ have}

RECURSIVE MergeEP(_, _, _, _, _)
MergeEP(rs, j, e, resolved, acc) ==
  IF j > Len(rs) THEN acc
  ELSE LET res1 == resolved \cup {x[4] : x \in {y \in rs[j].rep : <<y[1], y[2], y[3]>> = e}}
           new == {x \in rs[j].ep : <<x[1], x[2], x[3]>> = e /\ x[4] \notin res1}
       IN MergeEP(rs, j + 1, e, res1 \cup {x[4] : x \in new}, acc \cup new)

EPM(rs, pt, on, e) ==
  LET m == MergeEP(rs, 1, e, {}, {})
      have == {x[4] : x \in m}
      tk == IF on THEN {f[1][5] : f \in {h \in pt : h[1][1] = "e" /\ <<h[1][2], h[1][3], h[1][4]>> = e}} ELSE {}
  IN m \cup {<<e[1], e[2], e[3], k, TreeVal(pt, <<"e", e[1], e[2], e[3], k>>)[1]>> : k \in tk \ have}

(* The observation the dumper would record from the volatile state *)
ViewOf(rs, sg, te2, labs, pt, on) ==
  LET n == Len(rs)
      live == {i \in 0..(Len(te2) - 1) : i \notin TombNUpTo(rs, n)}
      ks == AllKeys(rs, sg)
      out == {<<k[1], k[2], k[3], OutCount(rs, sg, k)>> : k \in {q \in ks : q[1] \in live /\ OutCount(rs, sg, q) > 0}}
      inn == {<<k[1], k[2], k[3], InCount(rs, sg, k)>> : k \in {q \in ks : q[3] \in live /\ InCount(rs, sg, q) > 0}}
      ekeys == KeysOf(out)
      nkeys == UNION {{x[2] : x \in rs[j].np} \cup {x[2] : x \in rs[j].rnp} : j \in 1..n}
               \cup {e[1][3] : e \in {f \in pt : f[1][1] = "n"}}
      pkeys == UNION {{x[4] : x \in rs[j].ep} \cup {x[4] : x \in rs[j].rep} : j \in 1..n}
               \cup {e[1][5] : e \in {f \in pt : f[1][1] = "e"}}
      np1 == {<<q[1], q[2], NP1(rs, pt, on, q[1], q[2])[1]>> :
                q \in {z \in live \X nkeys : NP1(rs, pt, on, z[1], z[2]) # <<>>}}
      ep1 == {<<q[1][1], q[1][2], q[1][3], q[2], EP1(rs, pt, on, q[1], q[2])[1]>> :
                q \in {z \in ekeys \X pkeys : EP1(rs, pt, on, z[1], z[2]) # <<>>}}
  IN [i \in Interfaces |->
       CASE i = "nodes" -> {<<x>> : x \in live}
         [] i = "ext" -> {<<x, te2[x + 1][1]>> : x \in live}
         [] i = "e2i" -> {<<te2[x + 1][1], x>> : x \in live}
         [] i = "lab" -> UNION {{<<x, lb>> : lb \in labs[x + 1]} : x \in {y \in live : y < Len(labs)}}
         [] i = "np1" -> np1
         [] i = "npm" -> UNION {NPM(rs, pt, on, x) : x \in live}
         [] i = "out" -> out [] i = "outt" -> out
         [] i = "inn" -> inn [] i = "innt" -> inn
         [] i = "ep1" -> ep1
         [] i = "epm" -> UNION {EPM(rs, pt, on, e) : e \in ekeys}]

View == ViewOf(runs, segs, i2e, pubLab, ndb.pt, ptOn)

(***************************************************************************)
(* Transaction menu over the current abstract graph                        *)
(***************************************************************************)
Cur == hist[Len(hist)]
ExtOf(i) == 100 + i

Menu(g) ==
  LET ns == g.nodes ks == RelKeys(g) IN
     (IF g.next < MaxNodes
      THEN {<<<<"CreateNode", ExtOf(g.next), "A">>>>}
           \cup {<<<<"CreateNode", ExtOf(g.next), "A">>, <<"SetNP", g.next, Key, v>>>> : v \in Vals}
           \cup {<<<<"CreateNode", ExtOf(g.next), "">>, <<"CreateEdge", n, Typ, g.next>>>> : n \in ns}
      ELSE {})
  \cup {<<<<"CreateEdge", a, Typ, b>>>> : a \in ns, b \in ns}
  \cup {<<<<"CreateEdge", a, Typ, b>>, <<"SetEP", a, Typ, b, Key, v>>>> : a \in ns, b \in ns, v \in Vals}
  \cup {<<<<"SetNP", n, Key, v>>>> : n \in {m \in ns : AllowOverwrite \/ ~\E x \in g.np : x[1] = m}, v \in Vals}
  \cup {<<<<"SetEP", k[1], k[2], k[3], Key, v>>>> : k \in {q \in ks : AllowOverwrite \/ ~\E x \in g.ep : <<x[1], x[2], x[3]>> = q}, v \in Vals}
  \cup (IF AllowDelNode THEN {<<<<"DelNode", n>>>> : n \in ns} ELSE {})
  \cup (IF AllowDelEdge THEN {<<<<"DelEdge", k[1], k[2], k[3]>>>> : k \in ks} ELSE {})
  \cup (IF AllowRecreate THEN {<<<<"DelEdge", k[1], k[2], k[3]>>, <<"CreateEdge", k[1], k[2], k[3]>>>> : k \in ks} ELSE {})
  \cup (IF AllowRem THEN {<<<<"RemNP", x[1], x[2]>>>> : x \in g.np}
                         \cup {<<<<"RemEP", x[1], x[2], x[3], x[4]>>>> : x \in g.ep} ELSE {})
  \cup (IF AllowLabel THEN {<<<<"AddLabel", n, "B">>>> : n \in ns} \cup {<<<<"RemLabel", x[1], x[2]>>>> : x \in g.lab} ELSE {})

(***************************************************************************)
(* WriteTxn::commit                                                        *)
(***************************************************************************)
BeginCommit(ops) ==
  /\ open /\ pc = Idle /\ cnt.commit < MaxTx /\ recov \in {"none", "ok"}
  /\ LET run == [MemOps(EmptyRun, ops, 1) EXCEPT !.txid = nextTx]
         recs == TxRecs(nextTx, ops, run, Len(i2e))
     IN /\ pc' = [op |-> "commit", step |-> "walops", ops |-> ops, run |-> run, recs |-> recs, node |-> 1]
        /\ hist' = Append(hist, ApplyTx(Cur, ops))       \* the commit has started
  /\ cnt' = [cnt EXCEPT !.commit = @ + 1]
  /\ UNCHANGED <<disk, vol, acked, crashAcked, recov>>

Commit_WalAppendOps ==
  /\ pc.op = "commit" /\ pc.step = "walops"
  /\ wal' = wal \o pc.recs
  /\ pc' = [pc EXCEPT !.step = "walcommit"]
  /\ UNCHANGED <<walS, torn, ndb, ndbS, tmp, tmpS, renamed, vol, hist, acked, crashAcked, recov, cnt>>

Commit_WalAppendCommit ==
  /\ pc.op = "commit" /\ pc.step = "walcommit"
  /\ wal' = Append(wal, <<"Commit", pc.run.txid>>)
  /\ pc' = [pc EXCEPT !.step = "fsync"]
  /\ UNCHANGED <<walS, torn, ndb, ndbS, tmp, tmpS, renamed, vol, hist, acked, crashAcked, recov, cnt>>

Commit_WalFsync ==
  /\ pc.op = "commit" /\ pc.step = "fsync"
  /\ walS' = IF FsyncOnCommit THEN Len(wal) ELSE walS
  /\ renamed' = IF FsyncOnCommit THEN <<FALSE, <<>>, 0>> ELSE renamed
  /\ pc' = [pc EXCEPT !.step = "idmap"]
  /\ UNCHANGED <<wal, torn, ndb, ndbS, tmp, tmpS, vol, hist, acked, crashAcked, recov, cnt>>

CreatedOf(ops) == SelectSeq(ops, LAMBDA o : o[1] = "CreateNode")

(* idmap.apply_create_node: write the i2e record (page write, unsynced) ...  *)
Commit_I2eWrite ==
  /\ pc.op = "commit" /\ pc.step = "idmap" /\ pc.node <= Len(CreatedOf(pc.ops))
  /\ LET c == CreatedOf(pc.ops)[pc.node] IN
     ndb' = [ndb EXCEPT !.i2e = IF Len(@) >= Len(i2e) + 1
                                 THEN [@ EXCEPT ![Len(i2e) + 1] = <<c[2], c[3]>>]
                                 ELSE Append(@, <<c[2], c[3]>>)]
  /\ pc' = [pc EXCEPT !.step = "idmapmeta"]
  /\ UNCHANGED <<wal, walS, torn, ndbS, tmp, tmpS, renamed, vol, hist, acked, crashAcked, recov, cnt>>

(* ... then set_i2e_len: header write + sync_data (flush_meta_and_bitmap) *)
Commit_I2eMetaSync ==
  /\ pc.op = "commit" /\ pc.step = "idmapmeta"
  /\ LET c == CreatedOf(pc.ops)[pc.node]
         nd == [ndb EXCEPT !.i2eLen = Len(i2e) + 1]
     IN /\ ndb' = nd /\ ndbS' = nd
        /\ i2e' = Append(i2e, <<c[2], c[3]>>)
        /\ i2l' = Append(i2l, IF c[3] = "" THEN {} ELSE {c[3]})
  /\ pc' = [pc EXCEPT !.step = "idmap", !.node = @ + 1]
  /\ UNCHANGED <<wal, walS, torn, tmp, tmpS, renamed, open, runs, segs, pubLab, ckpt, nextTx, epoch, ptOn,
                 hist, acked, crashAcked, recov, cnt>>

ApplyLabelOps(l, ops) ==
  LET adds == SelectSeq(ops, LAMBDA o : o[1] = "AddLabel")
      rems == SelectSeq(ops, LAMBDA o : o[1] = "RemLabel")
      RECURSIVE A(_, _) A(x, i) == IF i > Len(adds) THEN x
                                   ELSE A([x EXCEPT ![adds[i][2] + 1] = @ \cup {adds[i][3]}], i + 1)
      RECURSIVE R(_, _) R(x, i) == IF i > Len(rems) THEN x
                                   ELSE R([x EXCEPT ![rems[i][2] + 1] = @ \ {rems[i][3]}], i + 1)
  IN R(A(l, 1), 1)    \* all additions, then all removals (commit order)

Commit_LabelsApplied ==
  /\ pc.op = "commit" /\ pc.step = "idmap" /\ pc.node > Len(CreatedOf(pc.ops))
  /\ i2l' = ApplyLabelOps(i2l, pc.ops)
  /\ pc' = [pc EXCEPT !.step = "publabels"]
  /\ UNCHANGED <<disk, open, runs, segs, i2e, pubLab, ckpt, nextTx, epoch, ptOn, hist, acked, crashAcked, recov, cnt>>

Commit_PublishLabels ==
  /\ pc.op = "commit" /\ pc.step = "publabels"
  /\ pubLab' = i2l
  /\ pc' = [pc EXCEPT !.step = "pubrun"]
  /\ UNCHANGED <<disk, open, runs, segs, i2e, i2l, ckpt, nextTx, epoch, ptOn, hist, acked, crashAcked, recov, cnt>>

Commit_PublishRun ==
  /\ pc.op = "commit" /\ pc.step = "pubrun"
  /\ runs' = IF RunEmpty(pc.run) THEN runs ELSE <<pc.run>> \o runs
  /\ nextTx' = nextTx + 2          \* begin_write took one id, commit's tail takes another
  /\ acked' = Len(hist)            \* commit returns Ok
  /\ pc' = Idle
  /\ UNCHANGED <<disk, open, segs, i2e, i2l, pubLab, ckpt, epoch, ptOn, hist, crashAcked, recov, cnt>>

(***************************************************************************)
(* GraphEngine::compact                                                    *)
(***************************************************************************)
(* build_segment_from_runs: newest first; a run's own tombstones are applied to its own edges *)
BuildSegmentBag(rs) ==
  LET RECURSIVE B(_, _)
      B(j, acc) == IF j > Len(rs) THEN acc
                   ELSE LET bn == TombNUpTo(rs, j) be == TombEUpTo(rs, j)
                            keep == {r \in rs[j].edges : r[1] \notin bn /\ r[3] \notin bn /\ <<r[1], r[2], r[3]>> \notin be}
                        IN B(j + 1, BagSum(acc, keep))
  IN B(1, {})

(* property sinking: newest run *value* per key (removal markers are not consulted) *)
SinkEntries(rs, pt, stamp0) ==
  LET nk == UNION {{<<x[1], x[2]>> : x \in rs[j].np} : j \in 1..Len(rs)}
      ek == UNION {{<<x[1], x[2], x[3], x[4]>> : x \in rs[j].ep} : j \in 1..Len(rs)}
      nv(k) == LET j == CHOOSE jj \in 1..Len(rs) : (\E x \in rs[jj].np : <<x[1], x[2]>> = k)
                                  /\ \A i \in 1..(jj - 1) : ~\E x \in rs[i].np : <<x[1], x[2]>> = k
               IN (CHOOSE x \in rs[j].np : <<x[1], x[2]>> = k)[3]
      evl(k) == LET j == CHOOSE jj \in 1..Len(rs) : (\E x \in rs[jj].ep : <<x[1], x[2], x[3], x[4]>> = k)
                                  /\ \A i \in 1..(jj - 1) : ~\E x \in rs[i].ep : <<x[1], x[2], x[3], x[4]>> = k
                IN (CHOOSE x \in rs[j].ep : <<x[1], x[2], x[3], x[4]>> = k)[5]
  IN {<<<<"n", k[1], k[2]>>, stamp0, nv(k)>> : k \in nk}
     \cup {<<<<"e", k[1], k[2], k[3], k[4]>>, stamp0, evl(k)>> : k \in ek}

BeginCompact ==
  /\ open /\ pc = Idle /\ cnt.compact < MaxCompact /\ Len(runs) > 0 /\ recov \in {"none", "ok"}
  /\ pc' = [op |-> "compact", step |-> "segpersist", segid |-> epoch + 1,
            upto |-> Max({runs[j].txid : j \in 1..Len(runs)})]
  /\ cnt' = [cnt EXCEPT !.compact = @ + 1]
  /\ UNCHANGED <<disk, vol, hist, acked, crashAcked, recov>>

Compact_PersistSegment ==
  /\ pc.op = "compact" /\ pc.step = "segpersist"
  /\ ndb' = [ndb EXCEPT !.segs = @ \cup {<<pc.segid, BuildSegmentBag(runs)>>}]
  /\ pc' = [pc EXCEPT !.step = "pagersync"]
  /\ UNCHANGED <<wal, walS, torn, ndbS, tmp, tmpS, renamed, vol, hist, acked, crashAcked, recov, cnt>>

Compact_PagerSync ==
  /\ pc.op = "compact" /\ pc.step = "pagersync"
  /\ ndbS' = IF SyncBeforeManifest THEN ndb ELSE ndbS
  /\ pc' = [pc EXCEPT !.step = "sink"]
  /\ UNCHANGED <<wal, walS, torn, ndb, tmp, tmpS, renamed, vol, hist, acked, crashAcked, recov, cnt>>

Compact_SinkProps ==
  /\ pc.op = "compact" /\ pc.step = "sink"
  /\ ndb' = [ndb EXCEPT !.pt = @ \cup SinkEntries(runs, @, ndb.ptN), !.ptN = @ + 1]
  /\ pc' = [pc EXCEPT !.step = "stats"]
  /\ UNCHANGED <<wal, walS, torn, ndbS, tmp, tmpS, renamed, vol, hist, acked, crashAcked, recov, cnt>>

(* the statistics blob: allocate_page (header write + sync_data) ... and that sync is what
   makes the sunk tree pages durable before the manifest is written *)
Compact_StatsAlloc ==
  /\ pc.op = "compact" /\ pc.step = "stats"
  /\ ndbS' = IF StatsAllocSyncs THEN ndb ELSE ndbS
  /\ pc' = [pc EXCEPT !.step = "walmanifest"]
  /\ UNCHANGED <<wal, walS, torn, ndb, tmp, tmpS, renamed, vol, hist, acked, crashAcked, recov, cnt>>

NewSegIds == <<pc.segid>> \o [j \in 1..Len(segs) |-> segs[j].id]
SunkAny == ptOn \/ \E j \in 1..Len(runs) : runs[j].np # {} \/ runs[j].ep # {}

Compact_WalManifest ==
  /\ pc.op = "compact" /\ pc.step = "walmanifest"
  /\ wal' = wal \o << <<"Begin", nextTx>>, <<"Manifest", epoch + 1, NewSegIds, SunkAny>>,
                      <<"Ckpt", pc.upto, epoch + 1, SunkAny>>, <<"Commit", nextTx>> >>
  /\ pc' = [pc EXCEPT !.step = "walfsync"]
  /\ UNCHANGED <<walS, torn, ndb, ndbS, tmp, tmpS, renamed, vol, hist, acked, crashAcked, recov, cnt>>

Compact_WalFsync ==
  /\ pc.op = "compact" /\ pc.step = "walfsync"
  /\ walS' = Len(wal) /\ renamed' = <<FALSE, <<>>, 0>>
  /\ pc' = [pc EXCEPT !.step = "publish"]
  /\ UNCHANGED <<wal, torn, ndb, ndbS, tmp, tmpS, vol, hist, acked, crashAcked, recov, cnt>>

(* store roots, clear runs, replace segments (single-threaded here; Publication.tla splits them) *)
Compact_Publish ==
  /\ pc.op = "compact" /\ pc.step = "publish"
  /\ ckpt' = pc.upto
  /\ ptOn' = SunkAny
  /\ segs' = <<[id |-> pc.segid, edges |-> BuildSegmentBag(runs)]>> \o segs
  /\ runs' = <<>>
  /\ epoch' = epoch + 1
  /\ nextTx' = nextTx + 1
  /\ pc' = Idle
  /\ UNCHANGED <<disk, open, i2e, i2l, pubLab, hist, acked, crashAcked, recov, cnt>>

(***************************************************************************)
(* Db::close -> checkpoint_on_close, and plain drop                        *)
(***************************************************************************)
BeginClose ==
  /\ open /\ pc = Idle /\ cnt.reopen < MaxReopen /\ recov \in {"none", "ok"}
  /\ pc' = [op |-> "close", step |-> "pagersync"]
  /\ cnt' = [cnt EXCEPT !.reopen = @ + 1]
  /\ UNCHANGED <<disk, vol, hist, acked, crashAcked, recov>>

Close_PagerSync ==
  /\ pc.op = "close" /\ pc.step = "pagersync"
  /\ ndbS' = ndb
  /\ pc' = [pc EXCEPT !.step = IF Len(runs) > 0 THEN "walfsync" ELSE "tmpwrite"]
  /\ UNCHANGED <<wal, walS, torn, ndb, tmp, tmpS, renamed, vol, hist, acked, crashAcked, recov, cnt>>

Close_TmpWrite ==
  /\ pc.op = "close" /\ pc.step = "tmpwrite"
  /\ tmp' = << <<"Begin", nextTx>>, <<"Manifest", epoch, [j \in 1..Len(segs) |-> segs[j].id], ptOn>>,
               <<"Ckpt", nextTx - 1, epoch, ptOn>>, <<"Commit", nextTx>> >>
  /\ tmpS' = FALSE
  /\ pc' = [pc EXCEPT !.step = "tmpsync"]
  /\ UNCHANGED <<wal, walS, torn, ndb, ndbS, renamed, vol, hist, acked, crashAcked, recov, cnt>>

Close_TmpSync ==
  /\ pc.op = "close" /\ pc.step = "tmpsync"
  /\ tmpS' = TRUE
  /\ pc' = [pc EXCEPT !.step = "rename"]
  /\ UNCHANGED <<wal, walS, torn, ndb, ndbS, tmp, renamed, vol, hist, acked, crashAcked, recov, cnt>>

(* rename(tmp, wal): atomic, but not durable before the directory / the file is synced *)
Close_Rename ==
  /\ pc.op = "close" /\ pc.step = "rename"
  /\ renamed' = <<TRUE, wal, walS>>
  /\ wal' = tmp /\ torn' = -1
  /\ walS' = (IF tmpS THEN Len(tmp) ELSE 0)
  /\ tmp' = <<>> /\ tmpS' = FALSE
  /\ pc' = [pc EXCEPT !.step = "walfsync"]
  /\ UNCHANGED <<ndb, ndbS, vol, hist, acked, crashAcked, recov, cnt>>

Close_WalFsync ==
  /\ pc.op = "close" /\ pc.step = "walfsync"
  /\ walS' = Len(wal) /\ renamed' = <<FALSE, <<>>, 0>>
  /\ open' = FALSE /\ pc' = Idle
  /\ crashAcked' = acked
  /\ UNCHANGED <<wal, torn, ndb, ndbS, tmp, tmpS, runs, segs, i2e, i2l, pubLab, ckpt, nextTx, epoch, ptOn,
                 hist, acked, recov, cnt>>

Drop ==
  /\ open /\ pc = Idle /\ cnt.reopen < MaxReopen /\ recov \in {"none", "ok"}
  /\ open' = FALSE /\ crashAcked' = acked
  /\ cnt' = [cnt EXCEPT !.reopen = @ + 1]
  /\ UNCHANGED <<disk, runs, segs, i2e, i2l, pubLab, ckpt, nextTx, epoch, ptOn, pc, hist, acked, recov>>

(***************************************************************************)
(* Crashes                                                                 *)
(***************************************************************************)
Appending == pc.op # "idle" /\ pc.step \in {"walops", "walcommit", "walmanifest"}

ProcessCrash ==
  /\ "process" \in CrashKinds /\ open /\ cnt.crash < MaxCrash
  /\ open' = FALSE /\ pc' = Idle
  /\ crashAcked' = acked
  /\ torn' \in (IF Appending /\ torn < 0 THEN {Len(wal), torn} ELSE {torn})   \* death in the middle of a record
  /\ cnt' = [cnt EXCEPT !.crash = @ + 1]
  /\ UNCHANGED <<wal, walS, ndb, ndbS, tmp, tmpS, renamed, runs, segs, i2e, i2l, pubLab, ckpt, nextTx, epoch, ptOn,
                 hist, acked, recov>>

PowerLoss ==
  /\ "power" \in CrashKinds /\ open /\ cnt.crash < MaxCrash
  /\ open' = FALSE /\ pc' = Idle
  /\ crashAcked' = acked
  /\ \/ /\ wal' = SubSeq(wal, 1, walS) /\ walS' = walS           \* the rename (if any) reached the disk
     \/ /\ renamed[1]                                               \* ... or it did not
        /\ wal' = SubSeq(renamed[2], 1, renamed[3]) /\ walS' = renamed[3]
  /\ torn' = IF torn >= 0 /\ walS > torn THEN torn ELSE -1
  /\ renamed' = <<FALSE, <<>>, 0>>
  /\ ndb' = ndbS /\ tmp' = <<>> /\ tmpS' = FALSE
  /\ cnt' = [cnt EXCEPT !.crash = @ + 1]
  /\ UNCHANGED <<ndbS, runs, segs, i2e, i2l, pubLab, ckpt, nextTx, epoch, ptOn, hist, acked, recov>>

(***************************************************************************)
(* GraphEngine::open (recovery)                                            *)
(***************************************************************************)
(* committed transactions: groups Begin .. Commit; a Begin drops a pending group *)
Committed(w) ==
  LET RECURSIVE Scan(_, _, _, _)
      Scan(i, cur, pend, out) ==
        IF i > Len(w) THEN out
        ELSE LET r == w[i] IN
             IF r[1] = "Begin" THEN Scan(i + 1, r[2], <<>>, out)
             ELSE IF r[1] = "Commit" THEN Scan(i + 1, 0, <<>>, Append(out, [txid |-> r[2], ops |-> pend]))
             ELSE Scan(i + 1, cur, Append(pend, r), out)
  IN Scan(1, 0, <<>>, <<>>)

RecState(txs) ==
  LET RECURSIVE S(_, _)
      S(i, st) ==
        IF i > Len(txs) THEN st
        ELSE LET RECURSIVE O(_, _)
                 O(j, s2) ==
                   IF j > Len(txs[i].ops) THEN s2
                   ELSE LET r == txs[i].ops[j] IN
                        IF r[1] = "Manifest" /\ r[2] >= s2.epoch
                        THEN O(j + 1, [s2 EXCEPT !.epoch = r[2], !.segids = r[3], !.ckpt = 0, !.pt = r[4]])
                        ELSE IF r[1] = "Ckpt" /\ r[3] = s2.epoch
                        THEN O(j + 1, [s2 EXCEPT !.ckpt = Max({@, r[2]}), !.pt = r[4]])
                        ELSE O(j + 1, s2)
             IN S(i + 1, [O(1, st) EXCEPT !.maxtx = Max({@, txs[i].txid})])
  IN S(1, [epoch |-> 0, segids |-> <<>>, ckpt |-> 0, pt |-> FALSE, maxtx |-> 0])

(* replay_graph_transactions over an idmap loaded from the page file *)
Replay(txs, ck, e0) ==
  LET RECURSIVE T(_, _)
      T(i, st) ==
        IF i > Len(txs) \/ st.err THEN st
        ELSE IF txs[i].txid <= ck THEN T(i + 1, st)
        ELSE LET recs == txs[i].ops
                 RECURSIVE N(_, _)
                 N(j, s2) ==
                   IF j > Len(recs) \/ s2.err THEN s2
                   ELSE LET r == recs[j] IN
                        IF r[1] = "Node"
                        THEN IF \E x \in 1..Len(s2.i2e) : s2.i2e[x][1] = r[2]
                             THEN IF (CHOOSE x \in 1..Len(s2.i2e) : s2.i2e[x][1] = r[2]) = r[4] + 1
                                  THEN N(j + 1, s2) ELSE [s2 EXCEPT !.err = TRUE]  \* external id remapped
                             ELSE IF r[4] # Len(s2.i2e) THEN [s2 EXCEPT !.err = TRUE]      \* non-dense internal id
                             ELSE N(j + 1, [s2 EXCEPT !.i2e = Append(@, <<r[2], r[3]>>),
                                                      !.i2l = Append(@, IF r[3] = "" THEN {} ELSE {r[3]})])
                        ELSE IF r[1] = "AddL" THEN
                             IF r[2] < Len(s2.i2l) THEN N(j + 1, [s2 EXCEPT !.i2l[r[2] + 1] = @ \cup {r[3]}])
                             ELSE [s2 EXCEPT !.err = TRUE]
                        ELSE IF r[1] = "RemL" THEN
                             IF r[2] < Len(s2.i2l) THEN N(j + 1, [s2 EXCEPT !.i2l[r[2] + 1] = @ \ {r[3]}])
                             ELSE [s2 EXCEPT !.err = TRUE]
                        ELSE N(j + 1, s2)
                 s3 == N(1, st)
                 ops == [j \in 1..Len(recs) |-> RecToOp(recs[j])]
                 run == [MemOps(EmptyRun, ops, 1) EXCEPT !.txid = txs[i].txid]
             IN T(i + 1, IF RunEmpty(run) THEN s3 ELSE [s3 EXCEPT !.runs = <<run>> \o @])
  IN T(1, [i2e |-> e0, i2l |-> [j \in 1..Len(e0) |-> IF e0[j][2] = "" THEN {} ELSE {e0[j][2]}], runs |-> <<>>, err |-> FALSE])

Open ==
  /\ ~open /\ pc = Idle
  /\ LET w0 == IF torn >= 0 THEN SubSeq(wal, 1, torn) ELSE wal   \* the reader stops at a partial record
         txs == Committed(w0)
         rs == RecState(txs)
         e0 == SubSeq(ndb.i2e, 1, Min({ndb.i2eLen, Len(ndb.i2e)}))
         segOk == \A j \in 1..Len(rs.segids) : \E s \in ndb.segs : s[1] = rs.segids[j]
         rp == Replay(txs, rs.ckpt, e0)
         ok == segOk /\ ~rp.err /\ ndb.i2eLen <= Len(ndb.i2e)
         nsegs == [j \in 1..Len(rs.segids) |-> [id |-> rs.segids[j], edges |-> (CHOOSE s \in ndb.segs : s[1] = rs.segids[j])[2]]]
         v == ViewOf(rp.runs, nsegs, rp.i2e, rp.i2l, ndb.pt, rs.pt)
         K == {k \in 1..Len(hist) : DiffO(hist[k], v) = {}}
     IN IF ~ok
        THEN /\ recov' = "open-failed"
             /\ UNCHANGED <<disk, vol, hist, acked, crashAcked, cnt>>
        ELSE /\ open' = TRUE
             /\ runs' = rp.runs /\ segs' = nsegs /\ i2e' = rp.i2e /\ i2l' = rp.i2l /\ pubLab' = rp.i2l
             /\ ckpt' = rs.ckpt /\ nextTx' = rs.maxtx + 1 /\ epoch' = rs.epoch /\ ptOn' = rs.pt
             \* recovery re-applies created nodes to the page file (write + header sync)
             /\ ndb' = [ndb EXCEPT !.i2e = rp.i2e, !.i2eLen = Len(rp.i2e)]
             /\ ndbS' = [ndb EXCEPT !.i2e = rp.i2e, !.i2eLen = Len(rp.i2e)]
             \* repaired recovery: set_len back to the last whole record + sync_data; unrepaired
             \* recovery leaves the partial record, so everything appended later stays unreachable
             /\ torn' = IF TruncateTornTail THEN -1 ELSE torn
             /\ wal' = IF TruncateTornTail THEN w0 ELSE wal
             /\ walS' = IF TruncateTornTail /\ torn >= 0 THEN Len(w0) ELSE walS
             /\ UNCHANGED <<tmp, tmpS, renamed, cnt>>
             /\ IF K = {} THEN recov' = "not-a-prefix" /\ UNCHANGED <<hist, acked, crashAcked>>
                ELSE LET k == Max(K) IN
                     /\ recov' = IF k < crashAcked THEN "lost-acked" ELSE "ok"
                     /\ hist' = SubSeq(hist, 1, k) /\ acked' = k /\ crashAcked' = k
  /\ pc' = Idle

Next ==
  \/ \E ops \in Menu(Cur) : BeginCommit(ops)
  \/ Commit_WalAppendOps \/ Commit_WalAppendCommit \/ Commit_WalFsync
  \/ Commit_I2eWrite \/ Commit_I2eMetaSync \/ Commit_LabelsApplied \/ Commit_PublishLabels \/ Commit_PublishRun
  \/ BeginCompact \/ Compact_PersistSegment \/ Compact_PagerSync \/ Compact_SinkProps \/ Compact_StatsAlloc
  \/ Compact_WalManifest \/ Compact_WalFsync \/ Compact_Publish
  \/ BeginClose \/ Close_PagerSync \/ Close_TmpWrite \/ Close_TmpSync \/ Close_Rename \/ Close_WalFsync
  \/ Drop \/ ProcessCrash \/ PowerLoss \/ Open

Spec == Init /\ [][Next]_vars

(***************************************************************************)
(* Properties                                                              *)
(***************************************************************************)
(* C06 / C05: at every quiescent point every read interface agrees with the abstract graph *)
ReadAgree == (open /\ pc = Idle /\ recov \in {"none", "ok"}) => DiffO(Cur, View) = {}

(* C01: recovery never loses an acknowledged commit *)
Durable == recov # "lost-acked"

(* C02 / C04: recovery succeeds and yields a committed prefix *)
Prefix == recov \notin {"not-a-prefix", "open-failed"}

(* the abstract graphs are well formed (C14 at this level) *)
GhostWellFormed == \A k \in 1..Len(hist) : WellFormed(hist[k])

(* log protocol: the ids of *committed* transactions strictly increase along the log (an
   uncommitted group left by a crash may share its id with the next transaction: recovery
   restarts at the largest committed id + 1, and a Begin discards the pending group) *)
TxidsIncrease ==
  LET c == Committed(wal) IN \A i \in 1..(Len(c) - 1) : c[i].txid < c[i + 1].txid

(* the fsync watermark never exceeds the log *)
WatermarkOk == walS <= Len(wal)

(* a checkpoint never covers a transaction whose effects are not entirely in pages *)
CkptCovered == (open /\ pc = Idle) => \A j \in 1..Len(runs) : runs[j].txid > ckpt

StateConstraint == Len(wal) <= 40
=============================================================================
