SPECIFICATION Spec
CONSTANTS MaxTx = 4
 WalFirst = TRUE
 CompactDuring = FALSE
INVARIANT LiveRecoverable
INVARIANT BackupConsistent
CHECK_DEADLOCK FALSE
