------------------------------ MODULE KnnTrace ------------------------------
(***************************************************************************)
(* C31: vector search against the abstract nearest-neighbour oracle.       *)
(*                                                                         *)
(* Abstract state (KnnAbs): vec, the vector last stored for a node by a    *)
(* committed transaction; live, the nodes that exist; every coordinate is  *)
(* a small integer, so squared distances are exact naturals.               *)
(* A search (q, k) may return any list R of <<node, d>> with               *)
(*   S1 Len(R) <= k                      S2 nodes pairwise different       *)
(*   S3 every node live and in DOMAIN vec                                  *)
(*   S4 d = sqrt(|q - vec[node]|^2) up to float rounding                   *)
(*   S5 d non-decreasing                                                   *)
(*   S6 if the index holds at most 2M + 1 vectors: the squared distances   *)
(*      of R are exactly the min(k, n) smallest ones (exact k-NN)          *)
(*   S7 the same search repeated after compaction / reopen returns the     *)
(*      same list.                                                         *)
(* Distances arrive as exact dyadic rationals n / 2^e (f32 mantissa).      *)
(***************************************************************************)
EXTENDS CypherVal, Json, IOUtils, TLC, FiniteSetsExt, SequencesExt

Rec == ndJsonDeserialize(IOEnv.TRACE)
VARIABLES l, m, live, vec, ghost, everVec, last, delc
(* ghost  : vectors written by transactions that were dropped (never committed)
   everVec: nodes that ever had a vector written, committed or not, deleted or not
   last   : searches already answered in this scenario, q/k -> hits, for S7
   delc   : deleted nodes whose deletion was followed by a compaction (known finding KF-01: compaction
            discards node tombstones, the node is visible again to every read interface) *)
vars == <<l, m, live, vec, ghost, everVec, last, delc>>
Emit(f) == PrintT(<<"FINDING", ToJson(f)>>)
EmptyF == [x \in {} |-> 0]
Init == l = 1 /\ m = 16 /\ live = {} /\ vec = EmptyF /\ ghost = EmptyF /\ everVec = {} /\ last = EmptyF /\ delc = {}

IsEv(e) == l <= Len(Rec) /\ Rec[l].ev = e
TReset == /\ IsEv("vreset")
          /\ m' = Rec[l].m /\ live' = {} /\ vec' = EmptyF /\ ghost' = EmptyF /\ everVec' = {} /\ last' = EmptyF /\ delc' = {}
          /\ l' = l + 1

Sq(x) == x * x
RECURSIVE SumSq(_, _, _)
SumSq(a, b, i) == IF i > Len(a) THEN 0 ELSE Sq(a[i] - b[i]) + SumSq(a, b, i + 1)
Dist2(a, b) == SumSq(a, b, 1)

(* S4: (n / 2^e)^2 within 2^-20 (relative) of the exact squared distance s *)
CloseTo(d, s) ==
  IF d.k # "fin" THEN FALSE
  ELSE IF s = 0 THEN d.n = 0
  ELSE LET a == BigMul(ToBig(d.n), ToBig(d.n))
           b == BigMulPow2(ToBig(s), 2 * d.e)
           diff == BigAbs(BigSub(a, b))
       IN BigCmp(BigMulPow2(diff, 20), b) <= 0
(* d1 <= d2 for two finite dyadics *)
DyLeq(d1, d2) == BigCmp(BigMulPow2(ToBig(d1.n), d2.e), BigMulPow2(ToBig(d2.n), d1.e)) <= 0

RECURSIVE SortedNat(_)
SortedNat(bag) ==      \* bag: sequence of naturals -> sorted sequence
  IF Len(bag) = 0 THEN <<>>
  ELSE LET mn == Min({bag[i] : i \in 1..Len(bag)})
           j == CHOOSE i \in 1..Len(bag) : bag[i] = mn
       IN <<mn>> \o SortedNat([i \in 1..(Len(bag) - 1) |-> IF i < j THEN bag[i] ELSE bag[i + 1]])

TStep ==
  /\ IsEv("vstep") /\ Rec[l].op # "search"
  /\ LET e == Rec[l] ok == e.res = "ok" IN
     /\ (IF ok THEN TRUE ELSE Emit([prop |-> "C31", at |-> l, kind |-> "step-failed", op |-> e.op, detail |-> e.res]))
     /\ live' = IF ok /\ e.op = "nodes" THEN live \cup ToSet(e.info.ids)
                ELSE IF ok /\ e.op = "delnode" THEN live \ ToSet(e.st.ids) ELSE live
     /\ vec' = IF ok /\ e.op = "setvec" /\ e.st.commit
               THEN [n \in DOMAIN vec \cup {it[1] : it \in ToSet(e.st.items)} |->
                       IF \E i \in 1..Len(e.st.items) : e.st.items[i][1] = n
                       THEN e.st.items[Max({i \in 1..Len(e.st.items) : e.st.items[i][1] = n})][2] ELSE vec[n]]
               ELSE vec
     /\ ghost' = IF e.op = "setvec" /\ ~(ok /\ e.st.commit)
                 THEN [n \in DOMAIN ghost \cup {it[1] : it \in ToSet(e.st.items)} |->
                         IF \E i \in 1..Len(e.st.items) : e.st.items[i][1] = n
                         THEN e.st.items[Max({i \in 1..Len(e.st.items) : e.st.items[i][1] = n})][2] ELSE ghost[n]]
                 ELSE ghost
     /\ everVec' = IF e.op = "setvec" THEN everVec \cup {it[1] : it \in ToSet(e.st.items)} ELSE everVec
     /\ delc' = IF ok /\ e.op = "compact" THEN {n \in DOMAIN vec : n \notin live} ELSE delc
  (* S7 compares answers across compaction and reopen only: any write forgets them *)
  /\ last' = IF Rec[l].op \in {"compact", "reopen"} THEN last ELSE EmptyF
  /\ UNCHANGED m
  /\ l' = l + 1

TSearch ==
  /\ IsEv("vstep") /\ Rec[l].op = "search"
  /\ LET e == Rec[l]
         q == e.st.q k == e.st.k
         hits == e.info.hits
         H == 1..Len(hits)
         stored == DOMAIN vec
         good == stored \cap live                      \* what a search may return
         notStored == {i \in H : hits[i][1] \notin stored}
         dead == {i \in H : hits[i][1] \in stored /\ hits[i][1] \notin live}
         judged == {i \in H : hits[i][1] \in stored}
         wrongDist == {i \in judged : ~CloseTo(hits[i][2], Dist2(q, vec[hits[i][1]]))}
         (* the wrong distance is exactly the one to a vector some dropped transaction wrote *)
         ghostDist(i) == hits[i][1] \in DOMAIN ghost /\ CloseTo(hits[i][2], Dist2(q, ghost[hits[i][1]]))
         unordered == {i \in H \ {1} : hits[i - 1][2].k = "fin" /\ hits[i][2].k = "fin" /\ ~DyLeq(hits[i - 1][2], hits[i][2])}
         dup == {i \in H : \E j \in H : j < i /\ hits[j][1] = hits[i][1]}
         small == Cardinality(everVec) <= 2 * m + 1
         wantS == LET gs == SetToSeq(good)
                      all == [i \in 1..Len(gs) |-> Dist2(q, vec[gs[i]])]
                      srt == SortedNat(all)
                  IN SubSeq(srt, 1, IF k < Len(srt) THEN k ELSE Len(srt))
         gotS == [i \in H |-> IF hits[i][1] \in stored THEN Dist2(q, vec[hits[i][1]]) ELSE -1]
         key == ToJson(<<q, k>>)
     IN /\ (IF e.res = "ok" THEN TRUE ELSE Emit([prop |-> "C31", at |-> l, kind |-> "search-failed", detail |-> e.res, q |-> q, k |-> k]))
        /\ (IF Len(hits) <= k THEN TRUE ELSE Emit([prop |-> "C31", at |-> l, kind |-> "more-than-k", got |-> Len(hits), k |-> k]))
        /\ (IF dup = {} THEN TRUE ELSE Emit([prop |-> "C31", at |-> l, kind |-> "node-returned-twice", node |-> hits[Min(dup)][1], q |-> q, k |-> k]))
        /\ (IF notStored = {} THEN TRUE
            ELSE Emit([prop |-> "C31", at |-> l, kind |-> "node-without-committed-vector", node |-> hits[Min(notStored)][1],
                       written_by_dropped_transaction |-> hits[Min(notStored)][1] \in DOMAIN ghost, q |-> q, k |-> k]))
        /\ (IF dead = {} THEN TRUE
            ELSE Emit([prop |-> "C31", at |-> l, kind |-> "deleted-node-returned", node |-> hits[Min(dead)][1],
                       only_nodes_resurrected_by_compaction |-> (\A i \in dead : hits[i][1] \in delc), q |-> q, k |-> k]))
        /\ (IF wrongDist = {} THEN TRUE
            ELSE Emit([prop |-> "C31", at |-> l, kind |-> "wrong-distance", node |-> hits[Min(wrongDist)][1], got |-> hits[Min(wrongDist)][2],
                       exact_squared |-> Dist2(q, vec[hits[Min(wrongDist)][1]]), distance_to_dropped_vector |-> ghostDist(Min(wrongDist)), q |-> q, k |-> k]))
        /\ (IF unordered = {} THEN TRUE ELSE Emit([prop |-> "C31", at |-> l, kind |-> "not-sorted", position |-> Min(unordered), q |-> q, k |-> k]))
        /\ (IF ~small \/ e.res # "ok" \/ gotS = wantS THEN TRUE
            ELSE Emit([prop |-> "C31", at |-> l, kind |-> "not-the-k-nearest", got_squared |-> gotS, want_squared |-> wantS, vectors |-> Cardinality(everVec),
                       m |-> m, only_nodes_resurrected_by_compaction |-> (dead # {} /\ notStored = {} /\ \A i \in dead : hits[i][1] \in delc), q |-> q, k |-> k]))
        /\ (IF key \notin DOMAIN last \/ last[key] = hits THEN TRUE
            ELSE LET nowLive == SelectSeq(hits, LAMBDA h : h[1] \notin delc)
                     (* the only change: deleted nodes that a compaction made visible again (KF-01) entered the answer *)
                     resurrected == Len(nowLive) < Len(hits) /\ Len(nowLive) <= Len(last[key])
                                    /\ nowLive = SubSeq(last[key], 1, Len(nowLive))
                 IN Emit([prop |-> "C31", at |-> l, kind |-> "result-changed-without-a-write", before |-> last[key], now |-> hits,
                          only_nodes_resurrected_by_compaction |-> resurrected, q |-> q, k |-> k]))
        /\ last' = (key :> hits) @@ last
  /\ UNCHANGED <<m, live, vec, ghost, everVec, delc>>
  /\ l' = l + 1

Next == TReset \/ TStep \/ TSearch
Spec == Init /\ [][Next]_vars
TraceAccepted ==
  LET d == TLCGet("stats").diameter IN
  IF d - 1 = Len(Rec) THEN TRUE ELSE Print(<<"UNCONSUMED", d, Len(Rec)>>, FALSE)
=============================================================================
