------------------------------ MODULE CypherGen ------------------------------
(***************************************************************************)
(* (1) The value universes from which the Cypher value-level checks draw   *)
(*     their inputs, defined in the specification and exported as JSON     *)
(*     (TLC as generator).                                                 *)
(* (2) The laws the oracle CypherVal itself must satisfy over those        *)
(*     universes, evaluated by TLC as ASSUMEs: exact arithmetic agrees     *)
(*     with TLC's native integers, OrdCmp is a total preorder, NumCmp is   *)
(*     antisymmetric and transitive, three-valued logic satisfies          *)
(*     De Morgan.  A reference that is not lawful cannot judge the engine. *)
(***************************************************************************)
EXTENDS CypherVal, Json, SequencesExt

I(x) == <<"int", ToBig(x)>>
IB(b) == <<"int", b>>
Fl(n, e) == <<"float", [k |-> "fin", neg0 |-> FALSE, n |-> n, e |-> e]>>
FlS(k) == <<"float", [k |-> k, neg0 |-> FALSE, n |-> BigZero, e |-> 0]>>
NegZero == <<"float", [k |-> "fin", neg0 |-> TRUE, n |-> BigZero, e |-> 0]>>
S(cps) == <<"str", cps>>
L(vs) == <<"list", vs>>
M(kvs) == <<"map", kvs>>

P53   == [s |-> 1, m |-> <<992, 5474, 1992, 9007>>]        \* 2^53
P53p1 == [s |-> 1, m |-> <<993, 5474, 1992, 9007>>]
P53p2 == [s |-> 1, m |-> <<994, 5474, 1992, 9007>>]
P63   == BigAdd(I64Max, BigOne)                            \* 2^63
I64MaxM1 == BigSub(I64Max, BigOne)
P62   == [s |-> 1, m |-> <<7904, 2738, 184, 1686, 461>>]  \* 2^62

Numbers ==
  << I(0), I(1), I(-1), I(2), I(3), Fl(ToBig(1), 0), Fl(ToBig(3), 1), Fl(ToBig(-1), 1), Fl(BigZero, 0), NegZero,
     IB(P53), IB(P53p1), IB(P53p2), Fl(P53, 0), Fl(P53p2, 0),
     IB(I64Max), IB(I64MaxM1), IB(I64Min), Fl(P63, 0), Fl(BigNeg(P63), 0),
     FlS("pinf"), FlS("ninf"), FlS("nan") >>

Others ==
  << Null, T, F, S(<<>>), S(<<97>>), S(<<97, 98>>), S(<<98>>), S(<<49>>),
     L(<<>>), L(<<I(1)>>), L(<<I(1), I(2)>>), L(<<I(1), Null>>), L(<<Fl(ToBig(1), 0)>>), L(<<S(<<97>>)>>),
     M(<<>>), M(<< <<<<107>>, I(1)>> >>), M(<< <<<<107>>, Fl(ToBig(1), 0)>> >>), M(<< <<<<107>>, Null>> >>) >>

CmpUniverse == Numbers \o Others

(* sort keys: at most one map; date-like strings of equal width sort the same either way *)
OrderUniverse ==
  Numbers \o
  << Null, T, F, S(<<>>), S(<<97>>), S(<<97, 98>>), S(<<98>>), S(<<49>>), S(<<66>>),
     S(<<50, 48, 50, 48, 45, 48, 49, 45, 48, 50>>),    \* "2020-01-02"
     S(<<50, 48, 50, 48, 45, 48, 49, 45, 49, 48>>),    \* "2020-01-10"
     S(<<50, 48, 49, 57, 45, 49, 50, 45, 51, 49>>),    \* "2019-12-31"
     S(<<50, 48, 50, 48>>),                            \* "2020"
     S(<<49, 50, 58, 51, 48>>),                        \* "12:30"
     L(<<>>), L(<<I(1)>>), L(<<I(1), I(2)>>), L(<<I(1), Null>>), L(<<I(2)>>), L(<<S(<<97>>)>>), L(<<Null>>),
     M(<< <<<<107>>, I(1)>> >>) >>

ArithOperands ==
  << I(0), I(1), I(-1), I(2), I(-2), I(3), I(7), I(-7), I(46341), I(65536), I(-65536), I(2147483647),
     IB(P53), IB(P62), IB(BigNeg(P62)), IB(I64Max), IB(I64MaxM1), IB(I64Min), IB(BigAdd(I64Min, BigOne)), Null >>

AggValues ==
  << I(0), I(1), I(2), I(3), I(-5), I(100), Fl(ToBig(1), 1), Fl(ToBig(3), 1), Fl(ToBig(5), 0), Fl(ToBig(-7), 2),
     IB(I64Max), IB(I64MaxM1), IB(P62), IB(I64Min), Null, S(<<97>>), S(<<98>>), S(<<>>), T, F,
     L(<<I(1)>>), L(<<I(2)>>) >>
AggKeys == << I(1), I(2), S(<<97>>), S(<<98>>), Null, T, L(<<I(1)>>) >>

Export ==
  [cmp |-> CmpUniverse, order |-> OrderUniverse, arith |-> ArithOperands, aggv |-> AggValues, aggk |-> AggKeys]

ASSUME PrintT(<<"UNIVERSES", ToJson(Export)>>)

(***************************************************************************)
(* Laws of the oracle                                                      *)
(***************************************************************************)
Small == {-100000001, -65536, -10000, -9999, -1, 0, 1, 2, 7, 9999, 10000, 10001, 46340, 99999999, 100000000}
ASSUME \A x \in Small : SmallBig(ToBig(x)) = x
ASSUME \A x, y \in Small : BigCmp(ToBig(x), ToBig(y)) = (IF x < y THEN -1 ELSE IF x > y THEN 1 ELSE 0)
ASSUME \A x, y \in Small : BigAdd(ToBig(x), ToBig(y)) = ToBig(x + y)
ASSUME \A x, y \in Small : BigSub(ToBig(x), ToBig(y)) = ToBig(x - y)
ASSUME \A x, y \in {-46340, -10001, -10000, -9999, -7, -1, 0, 1, 3, 9999, 10000, 10001, 46340} :
          BigMul(ToBig(x), ToBig(y)) = ToBig(x * y)
ASSUME BigMul(I64Max, I64Max) = BigAdd(BigSub(BigMul(P63, P63), BigMulPow2(P63, 1)), BigOne)
ASSUME BigMulPow2(BigOne, 53) = P53 /\ BigMulPow2(BigOne, 62) = P62 /\ BigMulPow2(P62, 1) = P63
ASSUME InI64(I64Max) /\ InI64(I64Min) /\ ~InI64(P63) /\ ~InI64(BigSub(I64Min, BigOne))

NumIdx == {i \in 1..Len(Numbers) : ~IsNaN(Numbers[i])}
(* matrices are LET-bound so that TLC evaluates them once *)
ASSUME LET nums == Numbers
           nm == [p \in NumIdx \X NumIdx |-> NumCmp(nums[p[1]], nums[p[2]])]
           NM == TLCEval(nm)
       IN /\ \A a, b \in NumIdx : NM[<<a, b>>] = 0 - NM[<<b, a>>]
          /\ \A a, b, c \in NumIdx : NM[<<a, b>>] <= 0 /\ NM[<<b, c>>] <= 0 => NM[<<a, c>>] <= 0
ASSUME NumCmp(IB(P53p1), Fl(P53, 0)) = 1 /\ NumCmp(IB(P53), Fl(P53, 0)) = 0 /\ NumCmp(IB(I64Max), Fl(P63, 0)) = -1
ASSUME NumCmp(Fl(ToBig(3), 1), I(1)) = 1 /\ NumCmp(Fl(ToBig(3), 1), I(2)) = -1 /\ NumCmp(NegZero, I(0)) = 0

OrdIdx == 1..Len(OrderUniverse)
OU(i) == OrderUniverse[i]
ASSUME \A i, j \in OrdIdx : Comparable(OU(i), OU(j))
ASSUME LET ou == OrderUniverse
           om == [p \in OrdIdx \X OrdIdx |-> OrdCmp(ou[p[1]], ou[p[2]])]
           OM == TLCEval(om)
       IN /\ \A i, j \in OrdIdx : OM[<<i, j>>] = 0 - OM[<<j, i>>]
          /\ \A i, j, k \in OrdIdx : OM[<<i, j>>] <= 0 /\ OM[<<j, k>>] <= 0 => OM[<<i, k>>] <= 0
ASSUME \A i \in OrdIdx : OrdCmp(OU(i), Null) <= 0

TV == {T, F, Null}
ASSUME \A a, b \in TV : Not3(And3(a, b)) = Or3(Not3(a), Not3(b)) /\ Not3(Or3(a, b)) = And3(Not3(a), Not3(b))
ASSUME \A a, b \in TV : And3(a, b) = And3(b, a) /\ Or3(a, b) = Or3(b, a) /\ Xor3(a, b) = Xor3(b, a)
ASSUME \A a \in TV : Not3(Not3(a)) = a /\ And3(a, T) = a /\ Or3(a, F) = a
ASSUME FloatNear(Fl(P63, 0), BigAdd(I64Max, BigOne)) /\ FloatNear(Fl(P63, 0), I64Max) /\ ~FloatNear(Fl(P62, 0), I64Max)

VARIABLE x
Init == x = 0
Next == UNCHANGED x
Spec == Init /\ [][Next]_x
=============================================================================
