SPECIFICATION Spec
CONSTANTS Nodes = {1, 2}
 MaxOps = 5
 Backfill = TRUE
 AllLabels = FALSE
 NormaliseNumbers = TRUE
INVARIANT IndexTransparent
CHECK_DEADLOCK FALSE
