SPECIFICATION Spec
CONSTANTS MaxTx = 4
 WalFirst = FALSE
 CompactDuring = FALSE
INVARIANT LiveRecoverable
INVARIANT BackupConsistent
CHECK_DEADLOCK FALSE
