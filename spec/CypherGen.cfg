SPECIFICATION Spec
