------------------------------ MODULE GraphAbs ------------------------------
(***************************************************************************)
(* The abstract property graph: what a user of nervusdb relies on.         *)
(* No WAL, runs, segments or pages appear here.  Every trace specification *)
(* and every implementation-shaped model judges against this module.       *)
(*                                                                         *)
(* A graph is a record of finite sets of tuples, which is also the shape   *)
(* the drivers log (JSON arrays of arrays), so observation and oracle are  *)
(* compared interface by interface with plain set operations.              *)
(*                                                                         *)
(*   next  : Nat                      next dense internal id (never reused)*)
(*   nodes : SUBSET Nat               live node ids                        *)
(*   ext   : {<<id, extId>>}          external id of every live node       *)
(*   lab   : {<<id, label>>}                                               *)
(*   np    : {<<id, key, val>>}       node properties (functional in key)  *)
(*   rel   : {<<src, type, dst, n>>}  relationship bag, n >= 1             *)
(*   ep    : {<<src, type, dst, key, val>>}                                *)
(*                                                                         *)
(* Values are opaque tagged strings ("i:5", "s:ab", ...).                  *)
(***************************************************************************)
EXTENDS Naturals, Sequences, FiniteSets

EmptyGraph ==
  [next |-> 0, nodes |-> {}, ext |-> {}, lab |-> {}, np |-> {}, rel |-> {}, ep |-> {}]

SeqSet(s) == {s[i] : i \in DOMAIN s}

RelCount(g, s, t, d) ==
  IF \E r \in g.rel : r[1] = s /\ r[2] = t /\ r[3] = d
  THEN (CHOOSE r \in g.rel : r[1] = s /\ r[2] = t /\ r[3] = d)[4]
  ELSE 0

RelKeys(g) == {<<r[1], r[2], r[3]>> : r \in g.rel}

(***************************************************************************)
(* Operations.  An operation is a tuple whose first element is its name.   *)
(*   <<"CreateNode", ext, label>>   label = "" means no label              *)
(*   <<"AddLabel", n, l>>  <<"RemLabel", n, l>>                            *)
(*   <<"CreateEdge", s, t, d>>  <<"DelEdge", s, t, d>>  <<"DelNode", n>>   *)
(*   <<"SetNP", n, k, v>>  <<"RemNP", n, k>>                               *)
(*   <<"SetEP", s, t, d, k, v>>  <<"RemEP", s, t, d, k>>                   *)
(*   <<"SetVec", n, vec>>           (no effect on the graph itself)        *)
(* Semantics fixed here: deleting a relationship key removes all parallel  *)
(* instances and their properties; deleting a node removes its labels,     *)
(* properties and incident relationships; program order matters.           *)
(***************************************************************************)
ApplyOp(g, op) ==
  CASE op[1] = "CreateNode" ->
         [g EXCEPT !.next  = @ + 1,
                   !.nodes = @ \cup {g.next},
                   !.ext   = @ \cup {<<g.next, op[2]>>},
                   !.lab   = IF op[3] = "" THEN @ ELSE @ \cup {<<g.next, op[3]>>}]
    [] op[1] = "AddLabel" ->
         IF op[2] \in g.nodes THEN [g EXCEPT !.lab = @ \cup {<<op[2], op[3]>>}] ELSE g
    [] op[1] = "RemLabel" ->
         [g EXCEPT !.lab = @ \ {<<op[2], op[3]>>}]
    [] op[1] = "CreateEdge" ->
         LET s == op[2] t == op[3] d == op[4] c == RelCount(g, s, t, d) IN
         IF s \in g.nodes /\ d \in g.nodes
         THEN [g EXCEPT !.rel = (@ \ {<<s, t, d, c>>}) \cup {<<s, t, d, c + 1>>}]
         ELSE g
    [] op[1] = "DelEdge" ->
         LET s == op[2] t == op[3] d == op[4] IN
         [g EXCEPT !.rel = {r \in @ : ~(r[1] = s /\ r[2] = t /\ r[3] = d)},
                   !.ep  = {p \in @ : ~(p[1] = s /\ p[2] = t /\ p[3] = d)}]
    [] op[1] = "DelNode" ->
         LET n == op[2] IN
         [g EXCEPT !.nodes = @ \ {n},
                   !.ext   = {x \in @ : x[1] # n},
                   !.lab   = {x \in @ : x[1] # n},
                   !.np    = {x \in @ : x[1] # n},
                   !.rel   = {r \in @ : r[1] # n /\ r[3] # n},
                   !.ep    = {p \in @ : p[1] # n /\ p[3] # n}]
    [] op[1] = "SetNP" ->
         LET n == op[2] k == op[3] v == op[4] IN
         IF n \in g.nodes
         THEN [g EXCEPT !.np = {x \in @ : ~(x[1] = n /\ x[2] = k)} \cup {<<n, k, v>>}]
         ELSE g
    [] op[1] = "RemNP" ->
         [g EXCEPT !.np = {x \in @ : ~(x[1] = op[2] /\ x[2] = op[3])}]
    [] op[1] = "SetEP" ->
         LET s == op[2] t == op[3] d == op[4] k == op[5] v == op[6] IN
         IF <<s, t, d>> \in RelKeys(g)
         THEN [g EXCEPT !.ep = {p \in @ : ~(p[1] = s /\ p[2] = t /\ p[3] = d /\ p[4] = k)}
                                 \cup {<<s, t, d, k, v>>}]
         ELSE g
    [] op[1] = "RemEP" ->
         [g EXCEPT !.ep = {p \in @ : ~(p[1] = op[2] /\ p[2] = op[3] /\ p[3] = op[4] /\ p[4] = op[5])}]
    [] OTHER -> g

RECURSIVE ApplyOps(_, _, _)
ApplyOps(g, ops, i) ==
  IF i > Len(ops) THEN g ELSE ApplyOps(ApplyOp(g, ops[i]), ops, i + 1)

ApplyTx(g, ops) == ApplyOps(g, ops, 1)

(***************************************************************************)
(* Well-formedness of the abstract graph (checked as an invariant of every *)
(* model that carries a graph; also the statement of C14 at this level).   *)
(***************************************************************************)
NoDangling(g) == \A r \in g.rel : r[1] \in g.nodes /\ r[3] \in g.nodes
PropsOnLive(g) ==
  /\ \A x \in g.np  : x[1] \in g.nodes
  /\ \A x \in g.lab : x[1] \in g.nodes
  /\ \A p \in g.ep  : <<p[1], p[2], p[3]>> \in RelKeys(g)
Functional(g) ==
  /\ \A x, y \in g.np : (x[1] = y[1] /\ x[2] = y[2]) => x = y
  /\ \A p, q \in g.ep : (p[1] = q[1] /\ p[2] = q[2] /\ p[3] = q[3] /\ p[4] = q[4]) => p = q
  /\ \A r, q \in g.rel : (r[1] = q[1] /\ r[2] = q[2] /\ r[3] = q[3]) => r = q
WellFormed(g) == NoDangling(g) /\ PropsOnLive(g) /\ Functional(g) /\ \A n \in g.nodes : n < g.next

(***************************************************************************)
(* Observations.  A dump is a record with one field per read interface:    *)
(*   nodes  node enumeration                 ext   resolve_external        *)
(*   e2i    external-id lookup               lab   labels                  *)
(*   np1    single-key property reads        npm   whole-map reads         *)
(*   out    outgoing neighbours (any type)   outt  outgoing per type       *)
(*   inn    incoming neighbours (any type)   innt  incoming per type       *)
(*   ep1    single-key relationship props    epm   whole-map               *)
(* each a sequence of tuples.  Diff names the interfaces that disagree     *)
(* with the graph and in which direction.                                  *)
(***************************************************************************)
Expect(g) ==
  [nodes |-> {<<n>> : n \in g.nodes},
   ext   |-> g.ext,
   e2i   |-> {<<x[2], x[1]>> : x \in g.ext},
   lab   |-> g.lab,
   np1   |-> g.np,  npm |-> g.np,
   out   |-> g.rel, outt |-> g.rel, inn |-> g.rel, innt |-> g.rel,
   ep1   |-> g.ep,  epm |-> g.ep]

Interfaces == {"nodes", "ext", "e2i", "lab", "np1", "npm", "out", "outt", "inn", "innt", "ep1", "epm"}

DumpSets(d) == [i \in Interfaces |-> SeqSet(d[i])]

(* o: function Interfaces -> set of tuples (an observation as sets) *)
DiffO(g, o) ==
  LET e == Expect(g) IN
     {i \o ":missing" : i \in {j \in Interfaces : e[j] \ o[j] # {}}}
  \cup {i \o ":extra" : i \in {j \in Interfaces : o[j] \ e[j] # {}}}

Diff(g, d) ==
  DiffO(g, DumpSets(d)) \cup (IF Len(d.errs) > 0 THEN {"read:error"} ELSE {})

(* The graph an observation describes (used to resynchronise a monitor).   *)
FromDump(g, d) ==
  LET o == DumpSets(d) IN
  [next  |-> g.next,
   nodes |-> {x[1] : x \in o["nodes"]},
   ext   |-> o["ext"],
   lab   |-> o["lab"],
   np    |-> o["npm"],
   rel   |-> o["out"],
   ep    |-> o["epm"]]
=============================================================================
