#!/usr/bin/env python3
"""Generates /verif/MANIFEST.json from the table below (keeps it valid by construction)."""
import json
import os
import subprocess

VERIF = os.path.dirname(os.path.dirname(os.path.abspath(__file__)))

TRACE_TXT = ("TLC judges every recorded step of executions of the real engine with a TLA+ trace specification "
             "whose oracle is the abstract property graph (GraphAbs); ")

CHECKS = {
    "C01": dict(ref="5 C01", tech="TLA+ trace validation (StorageTrace) of crash images + TLC model checking of Storage.tla",
                text=TRACE_TXT + "the driver materialises the process-death and power-loss image after every I/O step of every "
                     "operation (generated histories + fixed ones in which several transactions intern names before a compaction), opens each "
                     "with the real recovery code, commits again and reopens; an image that matches no prefix is also reported here when it lacks "
                     "something every state from the acknowledged one on contains; TLC checks Durable on the "
                     "implementation-shaped Storage model for every crash point of the model.",
                note="power loss = each file as of its last sync_data (rename both ways); torn sectors are not enumerated"),
    "C02": dict(ref="5 C02", tech="TLA+ trace validation (StorageTrace) of crash images + TLC model checking of Storage.tla",
                text=TRACE_TXT + "every crash image must open and equal one committed prefix; same runs as C01.",
                note="same crash model as C01"),
    "C04": dict(ref="5 C04", tech="TLA+ trace validation (StorageTrace) + TLC model checking of Storage.tla",
                text=TRACE_TXT + "after every close/drop + open the full dump must equal the abstract graph.",
                note="bounded histories; ids <= ~20 per history in quick"),
    "C05": dict(ref="5 C05", tech="TLA+ trace validation (StorageTrace) + TLC model checking of Storage.tla",
                text=TRACE_TXT + "the dump before and after every compaction/checkpoint and after every later transaction "
                     "must equal the abstract graph.",
                note="known findings KF-01..04 classified by cause signature"),
    "C06": dict(ref="5 C06", tech="TLA+ trace validation (StorageTrace) + TLC model checking of Storage.tla",
                text=TRACE_TXT + "after every commit each read interface is compared separately with the graph.",
                note="values are opaque; every PropertyValue kind appears"),
    "C07": dict(ref="5 C07", tech="TLA+ trace validation (StorageTrace) + TLC model checking of Storage.tla",
                text=TRACE_TXT + "after every dropped transaction the dump (and the dump after reopen) must be unchanged.",
                note="Rust-level drops; vector side effects are judged by the C31 check"),
    "C08": dict(ref="5 C08", tech="TLA+ trace validation (StorageTrace) of fault-injected runs",
                text=TRACE_TXT + "every I/O step of every commit/compaction/close is failed once; the monitor keeps the set "
                     "of admissible graphs (pre / post) and narrows it at reopen.",
                note="one fault per run"),
    "C12": dict(ref="5 C12", tech="TLA+ reference semantics of updates (CypherUpdate.tla) evaluated by TLC on recorded executions (trace validation)",
                text="CypherUpdate.ApplyStmt is a reference for CREATE, MERGE (+ON CREATE / ON MATCH), SET (property, = map, += map, labels), "
                     "REMOVE, DELETE and DETACH DELETE after MATCH / OPTIONAL MATCH / UNWIND prefixes, clause at a time over the rows; after "
                     "every generated statement the real graph is dumped and TLC requires it to equal ApplyStmt(previous dump) up to node "
                     "identity; every MERGE is repeated and must then create nothing; statements whose outcome depends on row order are "
                     "recognised by the specification (reversed-row evaluation) and not judged.",
                note="known findings KF-15/16 (update expressions read a snapshot, not the statement's own writes)"),
    "C13": dict(ref="5 C13", tech="TLA+ reference semantics (CypherUpdate.tla) on recorded C API scripts (trace validation, CypherTrace.TUpd/TTxn)",
                text="Statements that fail (conversion error at a later row, index error, connected-node DELETE after a CREATE, syntax error) "
                     "run through ndb_execute_write and inside ndb_begin_write/ndb_txn_query/ndb_txn_commit|rollback scripts; TLC applies the "
                     "reference only to the statements that returned OK and requires the dumped graph to equal the result: a failed statement "
                     "leaves no trace, also when the transaction is committed afterwards.",
                note="known finding KF-20 (partial effects of a failed statement are committed by an explicit transaction)"),
    "C14": dict(ref="5 C14", tech="TLA+ trace validation (CypherUpdate.DumpIllFormed + DeleteClause rule) of update and transaction executions",
                text="Every graph dump recorded after an update statement or a C API transaction is checked by TLC: each relationship of the "
                     "outgoing and of the incoming view joins two listed nodes and both views list the same relationships; the reference's "
                     "DELETE rule (a node with remaining relationships, including ones created earlier in the statement / transaction, "
                     "cannot be deleted without DETACH) decides which statements must fail.",
                note="known findings KF-21 (transaction statements read the committed snapshot) and KF-22 (CREATE ... DELETE in one statement)"),
    "C15": dict(ref="5 C15", tech="TLA+ reference evaluator (CypherSem.tla) on recorded executions of paired indexed / unindexed databases (trace validation)",
                text="Each seeded history (creates, updates by id and by value, property removal, label changes, deletes, compaction, reopen, "
                     "index creation at a random point) runs on two databases, with and without the index; after every step the equality "
                     "lookups for every (label, value) are executed and TLC judges each against the reference evaluated on that database's "
                     "dumped graph: rows(with index) = rows(without) = reference.",
                note="values 1, 2, 1.0, 'a', true; multi-label nodes; WHERE and inline-property forms"),
    "C17": dict(ref="5 C17", tech="TLA+ trace validation (StorageTrace) of crash images with hostile log tails + WalTail model",
                text=TRACE_TXT + "every process-death image (the log exactly as written up to each I/O step, which includes every "
                     "truncation point inside a record) is extended by six hostile tails, opened, extended by a commit and reopened.",
                note="tails: 64 zero bytes, 37 pseudo-random bytes, length 0x7ffffff0, header announcing more bytes than follow, "
                     "complete record with wrong checksum, bit flip in the last byte"),
    "C29": dict(ref="5 C29", tech="TLA+ trace validation (SchedTrace.TBackup) of backups interleaved with writer operations at schedule points",
                text="The backup thread is parked before the page-file copy, between the two copies and after the log copy while commits, "
                     "compactions and close-time log rewrites run; the completed backup is restored and opened; TLC requires the restored "
                     "dump to equal the quiescent dump at the start of the backup or after one of the writer operations.",
                note="known finding KF-24 (checkpoint between the copies); quiescent backups and commits in any gap hold"),
    "C30": dict(ref="5 C30", tech="TLA+ trace validation (CypherTrace.BulkCheck + CypherSem reference) of bulk-loaded and transaction-loaded databases",
                text="Seeded node / relationship sets are loaded once by the bulk loader and once through transactions; the driver echoes the "
                     "input, TLC builds the expected graph from it and requires both dumps to equal it (up to node identity, both traversal "
                     "directions agreeing), and the same generated read queries run on both databases, each judged against the reference.",
                note="single-label nodes (the loader's input format)"),
    "C32": dict(ref="5 C32", tech="TLC model checking of ExtId.tla + its behaviours replayed through the clock hook, judged by CypherTrace.TExt",
                text="ExtId.tla models the allocation rule (per-statement counter + clock read per node) under a clock that ticks, stalls or "
                     "steps back; TLC finds the duplicate; the behaviours (statement sizes and the reading of every creation) are replayed as "
                     "CREATE statements under the clock hook, followed by compaction and reopen; TLC requires every statement to succeed, to "
                     "add exactly its nodes, and every node to keep its identity, and attributes a failure to the rule only when the rule "
                     "itself yields the duplicate for the recorded readings.",
                note="known finding KF-25"),
    "C33": dict(ref="5 C33", tech="TLA+ trace validation (CypherTrace.TLim): limited runs against the unlimited run of the same query",
                text="Queries with large intermediates run without limits and under 5 limit settings each; TLC requires every limited run to "
                     "return the same bag of rows or a resource-limit error, with the reported observed count of per-row limits <= limit+1 "
                     "and timeout overshoot within slack.",
                note="differential oracle (weakest binding of the set); collection-size overshoot is not bounded by the rule"),
    "C24": dict(ref="5 C24", tech="TLA+ reference semantics (CypherUpdate.tla) on recorded C API transactions (trace validation, CypherTrace.TTxn)",
                text="Explicit C API transactions whose later statements MATCH / SET / MERGE / DELETE what earlier ones created or changed; TLC "
                     "applies the statements in order, each on the state left by the earlier ones, and requires the dump after COMMIT to equal "
                     "the result (after ROLLBACK: the graph before); a divergence is attributed by re-evaluating with committed-snapshot reads.",
                note="known finding KF-21"),
    "C34": dict(ref="5 C34", tech="TLA+ trace validation (CypherTrace.TParity/TAccept) with the documented acceptance rule ContainsWrite over the clause tree",
                text="The same reads run through ndb_query and through prepare + execute_streaming on identical databases: TLC requires the same "
                     "outcome, the same error category and the same bag of canonical rows; 21 statement classes (updates at top level, in "
                     "FOREACH, in CALL subqueries incl. nested ones, in UNION branches) are offered to ndb_query and ndb_execute_write and TLC "
                     "checks the gate decisions against ContainsWrite evaluated on the statement's clause tree.",
                note="EXPLAIN and statements both entries reject as syntax errors are not judged"),
    "C35": dict(ref="5 C35", tech="TLC model checking (Locks.tla) of K threads running the lock programs recorded from the real operations through the lock hooks, plus a watchdogged stress run",
                text="Every public operation (engine level and Db/Cypher level) is run alone and from N threads with the lock hooks on; the "
                     "acquire/release sequence of every call is a program.  Locks.tla runs K threads over every multiset of distinct programs "
                     "and every interleaving with std Mutex / writer-preferring RwLock semantics; TLC's deadlock check and <>AllDone decide.  "
                     "A gate-aware lock-order certificate (no compatible cycle of held->wanted edges) extends the result to any K when it holds.",
                note="K = 2 quick, K = 3 thorough; the stress run (8 / 16 threads) is watched for 30 s without progress"),
    "C18": dict(ref="5 C18", tech="TLC model checking of Pages.tla + TLA+ trace validation (PagesTrace) of growth histories recorded through the page-ownership hook",
                text="Pages.tla models the bitmap allocator, structures that write only pages they allocated, and the node table addressed as "
                     "start + n / RPP (with the repaired relocation and, as a sensitivity run, without it).  nvx pages grows real databases to "
                     "thousands of nodes interleaved with compactions, index creation, vectors and reopen; every pager call is logged with the "
                     "calling module; PagesTrace keeps the owner map and rejects a write / free by a non-owner, and compares what every read "
                     "interface returns with the content computed from the step parameters.",
                note="the defect the model predicted (node 512 written into the page after the table) was confirmed and repaired (fix e4d74e8)"),
    "C31": dict(ref="5 C31", tech="TLC model checking of Hnsw.tla (the index as implemented) + its behaviours replayed on the real index through the level hook + TLA+ trace validation (KnnTrace oracle, exact integer arithmetic) of every recorded search",
                text="Generated vector sets with small integer coordinates (ties, duplicates, re-insertions, deleted nodes, vectors written by dropped "
                     "transactions) are inserted through transactions with link counts M in {2,3,4,16}; every search_vector answer is judged by TLC: at "
                     "most k, distinct, live nodes with a committed vector, exact Euclidean distance (big-integer comparison of the f32 mantissa "
                     "squared against the exact squared distance), non-decreasing order, exactly the k nearest while the index holds <= 2M+1 vectors, "
                     "and the same answer when the search is repeated after compaction or reopen (indexes of 900 vectors force root splits).  "
                     "Hnsw.tla transcribes insert / search_layer / select_neighbors / back links; TLC checks soundness and exactness below 2M+1 "
                     "vectors for all insertion orders, levels and re-insertions of 4-5 nodes, the two pinned variants must fail, and simulated "
                     "behaviours are replayed on the engine with the model's levels and compared with the model's own answers.",
                note="four defects found and repaired (stale roots after reopen, deleted nodes returned, vectors of dropped transactions, re-insertion cutting nodes off - the last one found by TLC on Hnsw.tla); KF-26 = KF-01's effect on search"),
    "C26": dict(ref="5 C26", tech="TLC model checking of BTree.tla + TLA+ trace validation (BTreeTrace) of the real B-tree",
                text="BTree.tla transcribes insert/split/delete/cursor with page capacity 2; TLC checks scan/lookup/delete against the "
                     "sorted-multimap ghost exhaustively for unique keys, and reproduces the equal-keys defect whose counterexample is "
                     "replayed on the real tree; seeded sequences on the real tree (fan-out 2, 4, ~400, with reopen) are judged step by "
                     "step by BTreeTrace.tla.",
                note="known findings KF-09/KF-10 (equal keys)"),
    "C03": dict(ref="5 C03", tech="TLA+ trace validation (SchedTrace.TSnap) of executions under forced schedules (schedule-point hooks)",
                text="One writer operation (commit, compaction, index creation) runs against one reader assembling a snapshot; the controller "
                     "forces every interleaving of their schedule points (between the publication steps and between the snapshot's field "
                     "reads); TLC requires the dump through the snapshot to equal the quiescent dump before or after the operation as a "
                     "whole, and the same snapshot read again after the writer finished (also across several compactions) to be unchanged - "
                     "including the statistics interface (node / relationship counts), which is judged for stability only.",
                note="known findings KF-17 (non-atomic assembly, only when reads overlap publication) and KF-18 (in-place property sinking)"),
    "C09": dict(ref="5 C09", tech="TLC model checking of AutoCommit.tla + its behaviours replayed into ndb_execute_write under schedule-point hooks, judged by SchedTrace.TIncr",
                text="AutoCommit.tla models the auto-commit entry point (snapshot, writer lock, execute+commit) with the order of the first two "
                     "steps as a constant: TLC proves NoLostUpdate and termination for lock-first with 3 threads and finds the lost update for "
                     "snapshot-first; every behaviour of the 2-thread model is forced on the real ndb_execute_write for counter increments "
                     "and a conditional create, and TLC checks final value = initial + successful statements.",
                note="the order observed in the code is recorded in the evidence"),
    "C10": dict(ref="5 C10", tech="TLC model checking of Handles.tla + TLA+ trace validation (SchedTrace.THandles) of multi-handle executions",
                text="Handles.tla models two handles over one disk with the refusal of a second open as a constant: TLC proves unique, dense "
                     "ids with refusal and finds the collision without; handle scenarios (same process and a child process; commits, "
                     "compaction, close in both orders) run on the real engine and TLC requires every second open to be refused, the final "
                     "open to succeed and every acknowledged node to be present.",
                note="7 scenarios"),
    "C11": dict(ref="5 C11", tech="TLA+ reference evaluator (CypherSem.tla) evaluated by TLC on recorded executions (trace validation, CypherTrace)",
                text="CypherSem.tla is an independent reference evaluator of the read fragment (pattern matching with relationship "
                     "uniqueness over the relationship bag, OPTIONAL MATCH, WHERE in three-valued logic, WITH, UNWIND, DISTINCT, "
                     "aggregation, ORDER BY/SKIP/LIMIT); seeded random graphs and well-scoped query ASTs are rendered to Cypher, executed "
                     "on the real engine, and TLC evaluates the reference on the dumped graph and judges the returned rows as a bag or "
                     "as an order-respecting slice.",
                note="known findings KF-11..13 (uniqueness across comma patterns, parallel relationships, bound node inside a chain)"),
    "C19": dict(ref="5 C19", tech="TLA+ trace validation (CypherTrace.TPart): bag identity on recorded rows",
                text="For every generated (base query, predicate) the four queries (no filter, WHERE p, WHERE NOT p, WHERE p IS NULL) "
                     "run on the real engine; TLC checks rows() = rows(p) + rows(NOT p) + rows(p IS NULL) as bags.",
                note="two graphs x with/without property indexes; predicates that raise in every variant are outside the claim"),
    "C20": dict(ref="5 C20", tech="TLC checks OrdCmp is a total preorder (CypherGen) + TLA+ trace validation (CypherTrace.TOrder)",
                text="CypherVal.OrdCmp is the orderability preorder (checked reflexive/antisymmetric/transitive/total by TLC over the "
                     "universe, which TLC also exports as the generator's input); recorded ORDER BY results over 1-2 keys with ASC/DESC, "
                     "SKIP and LIMIT must be permutation slices sorted by OrdCmp at the positions SKIP/LIMIT select.",
                note="values: ints/floats at 2^53 and 2^63 boundaries, NaN, infinities, -0.0, nulls, strings incl. date-like, lists, a map"),
    "C21": dict(ref="5 C21", tech="TLA+ trace validation (CypherTrace.TAgg/TArith) with exact arbitrary-precision folds in CypherVal",
                text="Recorded aggregate rows are judged per group against exact folds computed by TLC (arbitrary-precision integers and "
                     "dyadic rationals): count(*), count, sum, min, max, collect, avg and the DISTINCT forms, one row per key, and the "
                     "overflow rule for integer sums.",
                note="float sums/avg accepted within the rounding error of any summation order (2^-48 of the sum of magnitudes)"),
    "C22": dict(ref="5 C22", tech="TLA+ trace validation (CypherTrace.TErr) with the consumption rule Consumes(op, position, limit)",
                text="One row of the input raises a runtime error; the specification's rule says whether the operator must consume the "
                     "row (every blocking operator, no LIMIT, or failing row before LIMIT); the recorded outcome must then be an error.",
                note="3 failing expressions x 12 operator forms x positions"),
    "C23": dict(ref="5 C23", tech="TLC checks the laws on CypherVal (CypherGen) + TLA+ trace validation (CypherTrace.TTruth3/TCmp/TArith)",
                text="Truth tables, full comparison tables of the value universe (=, <>, <, <=, >, >=) and integer operators at the "
                     "64-bit boundaries are recorded from the real engine; TLC checks the laws on the observed tables (Kleene tables, "
                     "De Morgan, null propagation, equality an equivalence, order operators mutually consistent and congruent with "
                     "equality, exact int/float comparison, one overflow rule for + - * unary- abs sum).",
                note="laws are checked on observed tables; the oracle's own laws are checked by TLC first"),
    "C27": dict(ref="5 C27", tech="TLC model checking of OrderedKey.tla (exhaustive at reduced width) + TLA+ trace validation (OrderedKeyTrace) of the real encoder",
                text="OrderedKey.tla transcribes the encoding at reduced width (4-bit integers, 6-bit minifloats, strings over {0,1,255}); TLC "
                     "checks order preservation, equality and prefix-freeness for every pair, and that dropping the -0.0 normalisation is "
                     "caught; the real encode_ordered_value is recorded for boundary and seeded 64-bit values and every pair is judged by "
                     "OrderedKeyTrace.tla with exact integer / dyadic comparison; floats outside the exact range (subnormals, the smallest normal number, "
                     "values around the epsilon, the largest finite numbers) are ordered by their IEEE sign and magnitude bits.",
                note="NaN excluded as in the property; lists/maps are outside the property's quantifier"),
    "C28": dict(ref="5 C28", tech="TLA+ trace validation (StorageTrace for generated histories, PagesTrace for large databases)",
                text=TRACE_TXT + "close, vacuum, reopen, dump, write, reopen.  Large databases (600-1150 nodes: node table of two or three "
                     "pages, also relocated; index; 20 kB values; vector index; compactions) are vacuumed while closed and everything read back is "
                     "compared by PagesTrace with the content computed from the step parameters, before and after one more transaction.",
                note="vacuum of a cleanly closed database only"),
}

# properties whose check has been run green on the unchanged tree
ENABLED = ["C01", "C02", "C03", "C04", "C05", "C06", "C07", "C08", "C09", "C10", "C11", "C12", "C13", "C14", "C15", "C17", "C18", "C19", "C20", "C21", "C22", "C23", "C24", "C26", "C27", "C28", "C29", "C30", "C31", "C32", "C33", "C34", "C35"]

NOT_APPLICABLE = {
    "C16": "quantifies over arbitrary byte strings and resource exhaustion; no state machine to specify, a fuzzer's job (DESIGN.md 6)",
    "C25": "encode/decode identity of two pure functions; a TLA+ transcription would only restate the byte format (DESIGN.md 6)",
}


def main():
    props = [json.loads(l)["id"] for l in open(os.path.join(VERIF, "properties.jsonl"))]
    enabled = set(os.environ.get("VERIF_ENABLED", "").split(",")) if os.environ.get("VERIF_ENABLED") else None
    import sys
    sys.path.insert(0, os.path.join(VERIF, "lib"))
    import checks
    import cychecks  # noqa: F401
    import conchecks  # noqa: F401
    import pagechecks  # noqa: F401
    checks_out = []
    na = []
    for p in props:
        if p in CHECKS and p in checks.REG and p in ENABLED:
            c = CHECKS[p]
            checks_out.append({
                "property_id": p,
                "quick_cmd": "bin/check %s --tier quick" % p,
                "thorough_cmd": "bin/check %s --tier thorough" % p,
                "evidence_file": "/verif/evidence/%s.json" % p,
                "replay_cmd_template": "bin/check %s --replay {path}" % p,
                "engine": "tlc",
                "level_claimed": {"category": "model_checking", "text": c["text"], "design_ref": c["ref"]},
                "level_note": c["note"],
                "technique": c["tech"],
            })
        elif p in NOT_APPLICABLE:
            na.append({"property_id": p, "reason": NOT_APPLICABLE[p]})
        else:
            na.append({"property_id": p, "reason": "check not built yet (planned in DESIGN.md 5 %s); not claimed until it runs" % p})
    commits = subprocess.run(["git", "-C", "/repo", "log", "--format=%h %s", "15d50c4..HEAD"], capture_output=True, text=True).stdout.splitlines()
    hooks = [c.split()[0] for c in commits if c.split(" ", 1)[1].startswith("verif:")]
    m = {
        "version": 1,
        "setup_cmd": "cd /verif/harness && cp -n /repo/Cargo.lock Cargo.lock; CARGO_NET_OFFLINE=true cargo build --release --offline",
        "hooks": {
            "guard": "--cfg nervusdb_verif",
            "enable": "RUSTFLAGS='--cfg nervusdb_verif' (set in /verif/harness/.cargo/config.toml; the harness has path dependencies on /repo)",
            "baseline_off_cmd": "cd /repo && cargo test --workspace --no-fail-fast --offline",
            "source_commits": hooks,
            "add_only": True,
        },
        "engines": [
            {"name": "tlc", "path": "/verif/spec", "serves_properties": [c["property_id"] for c in checks_out],
             "kind_free_text": "TLA+ specifications: GraphAbs (oracle), StorageTrace (trace specification), implementation-shaped models; TLC as model checker, judge of recorded executions and generator"},
            {"name": "nvx", "path": "/verif/harness", "serves_properties": [c["property_id"] for c in checks_out],
             "kind_free_text": "Rust harness executing histories on the real engine under cfg(nervusdb_verif) hooks and recording NDJSON traces"},
        ],
        "checks": checks_out,
        "not_applicable": na,
        "notes": "Every check: bin/check <id>; exit 0 held / 1 VIOLATION / 2 tool error. Known findings: /verif/known_findings.json.",
    }
    with open(os.path.join(VERIF, "MANIFEST.json"), "w") as fh:
        json.dump(m, fh, indent=1)
    print("claimed:", [c["property_id"] for c in checks_out])


if __name__ == "__main__":
    main()
