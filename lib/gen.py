"""Seeded generator of storage-level histories.

The generator keeps a shadow graph only to emit *well-formed* operations (it
references live nodes and existing relationships); it carries no expected
values -- TLC judges every execution with the GraphAbs oracle.

Flavours
  nocompact : every operation kind, close/drop reopen, no compaction
  compact   : compaction / checkpoint at arbitrary positions; avoids the
              operation combinations that the known findings need
  free      : everything (used by the thorough tier and by the probes)
"""
import random

LABELS = ["A", "B", "C"]
TYPES = ["R", "S"]
KEYS = ["p", "q"]
VALUES = ["i:1", "i:2", "i:-7", "s:a", "s:", "b:1", "b:0", "f:3ff8000000000000",
          "f:7ff8000000000000", "n:", "d:1700000000", "x:00ff", "l:[i:1|s:b]",
          "m:{k=i:1}", "i:9223372036854775807", "s:\u00e9\u4e2d"]


class Shadow:
    def __init__(self):
        self.next = 0
        self.nodes = set()
        self.rel = {}          # key -> count
        self.np = set()        # (n,k)
        self.ep = set()        # (s,t,d,k)
        self.dead_keys = set()
        self.seg_keys = set()
        self.run_edges = set()
        self.tree_np = set()
        self.tree_ep = set()
        self.label_changed = False
        self.compacted = False
        self.runs_empty = True
        self.ext = 100

    def compact(self):
        self.seg_keys |= self.run_edges
        self.run_edges = set()
        self.tree_np |= self.np
        self.tree_ep |= self.ep
        self.compacted = True
        self.runs_empty = True


def gen_tx(rng, sh, flavour, maxops):
    ops = []
    n_ops = rng.randint(1, maxops)
    for _ in range(n_ops):
        choices = ["CreateNode"] * 3
        if sh.nodes:
            choices += ["SetNP"] * 3 + ["CreateEdge"] * 3
            if flavour != "compact":
                choices += ["AddLabel", "RemLabel", "RemNP", "DelNode"]
            elif flavour == "compact" and not sh.compacted:
                pass
        if sh.rel:
            choices += ["SetEP"] * 2 + ["DelEdge"]
            if flavour != "compact":
                choices += ["RemEP"]
        c = rng.choice(choices)
        if c == "CreateNode":
            sh.ext += 1
            lab = rng.choice(LABELS + [""])
            ops.append(["CreateNode", str(sh.ext), lab])
            sh.nodes.add(sh.next)
            sh.next += 1
        elif c == "SetNP":
            n = rng.choice(sorted(sh.nodes)); k = rng.choice(KEYS); v = rng.choice(VALUES)
            ops.append(["SetNP", n, k, v]); sh.np.add((n, k)); sh.runs_empty = False
        elif c == "RemNP":
            n = rng.choice(sorted(sh.nodes)); k = rng.choice(KEYS)
            if flavour == "nocompact" or flavour == "free":
                ops.append(["RemNP", n, k]); sh.np.discard((n, k)); sh.runs_empty = False
        elif c == "AddLabel":
            n = rng.choice(sorted(sh.nodes)); l = rng.choice(LABELS)
            if flavour != "free" and ["RemLabel", n, l] in ops:
                continue
            ops.append(["AddLabel", n, l]); sh.label_changed = True
        elif c == "RemLabel":
            n = rng.choice(sorted(sh.nodes)); l = rng.choice(LABELS)
            ops.append(["RemLabel", n, l]); sh.label_changed = True
        elif c == "CreateEdge":
            s = rng.choice(sorted(sh.nodes)); d = rng.choice(sorted(sh.nodes)); t = rng.choice(TYPES)
            key = (s, t, d)
            if flavour != "free" and key in sh.dead_keys:
                continue
            ops.append(["CreateEdge", s, t, d])
            sh.rel[key] = sh.rel.get(key, 0) + 1
            sh.run_edges.add(key); sh.runs_empty = False
        elif c == "DelEdge":
            key = rng.choice(sorted(sh.rel))
            if flavour == "compact" and key in sh.seg_keys:
                continue
            ops.append(["DelEdge", key[0], key[1], key[2]])
            del sh.rel[key]
            sh.ep = {e for e in sh.ep if e[:3] != key}
            sh.dead_keys.add(key); sh.run_edges.discard(key); sh.runs_empty = False
        elif c == "SetEP":
            key = rng.choice(sorted(sh.rel)); k = rng.choice(KEYS); v = rng.choice(VALUES)
            ops.append(["SetEP", key[0], key[1], key[2], k, v]); sh.ep.add(key + (k,)); sh.runs_empty = False
        elif c == "RemEP":
            key = rng.choice(sorted(sh.rel)); k = rng.choice(KEYS)
            ops.append(["RemEP", key[0], key[1], key[2], k]); sh.ep.discard(key + (k,)); sh.runs_empty = False
        elif c == "DelNode":
            n = rng.choice(sorted(sh.nodes))
            ops.append(["DelNode", n])
            sh.nodes.discard(n)
            for key in [k for k in sh.rel if k[0] == n or k[2] == n]:
                del sh.rel[key]; sh.dead_keys.add(key); sh.run_edges.discard(key)
                sh.ep = {e for e in sh.ep if e[:3] != key}
            sh.np = {x for x in sh.np if x[0] != n}
            sh.runs_empty = False
    return ops


def gen_history(seed, hid, flavour="nocompact", n_ops=8, maxtx=5, aborts=True, vacuum=False):
    rng = random.Random(seed)
    sh = Shadow()
    ops = []
    for _ in range(n_ops):
        r = rng.random()
        if r < 0.62 or not ops:
            txops = gen_tx(rng, sh, flavour, maxtx)
            if txops:
                ops.append({"op": "tx", "ops": txops})
        elif r < 0.72 and aborts:
            # an aborted transaction: generated against a copy of the shadow, then discarded
            import copy
            sh2 = copy.deepcopy(sh)
            txops = gen_tx(rng, sh2, flavour, maxtx)
            sh.ext = sh2.ext  # external ids are never reused by the generator
            if txops:
                ops.append({"op": "abort", "ops": txops})
        elif r < 0.86:
            if flavour == "nocompact":
                # a close with no published runs rewrites the log; label changes would be lost (known)
                how = rng.choice(["drop", "close"])
                if how == "close" and sh.runs_empty and sh.label_changed:
                    how = "drop"
                ops.append({"op": "reopen", "how": how})
            elif flavour == "compact":
                if sh.run_edges:
                    ops.append({"op": rng.choice(["compact", "checkpoint"])}); sh.compact()
            else:
                ops.append({"op": rng.choice(["compact", "checkpoint"])}); sh.compact()
        elif r < 0.96:
            how = rng.choice(["drop", "close"])
            if flavour != "free" and how == "close" and sh.runs_empty and sh.label_changed:
                how = "drop"
            ops.append({"op": "reopen", "how": how})
        else:
            if vacuum:
                ops.append({"op": "vacuum"})
    return {"id": hid, "flavour": flavour, "ops": ops}


def gen_vacuum_deep(seed, hid):
    """Several compactions (each orphans pages), vacuum, then writes that allocate pages again
    (transactions + compaction), reopen, a second vacuum, a write and a reopen."""
    rng = random.Random(seed)
    sh = Shadow()
    ops = []

    def rounds(n):
        for _ in range(n):
            for _ in range(rng.randint(1, 2)):
                txops = gen_tx(rng, sh, "compact", 5)
                if txops:
                    ops.append({"op": "tx", "ops": txops})
            # a compaction needs at least one relationship in the runs to build a segment
            if not sh.run_edges and len(sh.nodes) >= 2:
                a, b = rng.sample(sorted(sh.nodes), 2)
                t = rng.choice(TYPES)
                if (a, t, b) not in sh.dead_keys:
                    ops.append({"op": "tx", "ops": [["CreateEdge", a, t, b]]})
                    sh.rel[(a, t, b)] = sh.rel.get((a, t, b), 0) + 1
                    sh.run_edges.add((a, t, b))
            ops.append({"op": rng.choice(["compact", "checkpoint"])})
            sh.compact()

    rounds(rng.randint(3, 5))
    ops.append({"op": "vacuum"})
    rounds(rng.randint(1, 3))
    ops.append({"op": "reopen", "how": rng.choice(["drop", "close"])})
    ops.append({"op": "vacuum"})
    txops = gen_tx(rng, sh, "compact", 4)
    if txops:
        ops.append({"op": "tx", "ops": txops})
    ops.append({"op": "reopen", "how": "drop"})
    return {"id": hid, "flavour": "compact", "ops": ops}


def probes():
    """Deterministic histories that reproduce each known finding (and nothing else)."""
    P = []
    P.append({"id": "probe/nodetomb_compacted", "ops": [
        {"op": "tx", "ops": [["CreateNode", "1", "A"], ["CreateNode", "2", "A"], ["CreateEdge", 0, "R", 1]]},
        {"op": "tx", "ops": [["CreateNode", "3", "A"], ["CreateEdge", 0, "R", 2]]},
        {"op": "tx", "ops": [["DelNode", 2]]},
        {"op": "compact"}]})
    P.append({"id": "probe/edgetomb_compacted", "ops": [
        {"op": "tx", "ops": [["CreateNode", "1", "A"], ["CreateNode", "2", "A"], ["CreateEdge", 0, "R", 1], ["CreateEdge", 1, "R", 0]]},
        {"op": "compact"},
        {"op": "tx", "ops": [["DelEdge", 0, "R", 1], ["CreateEdge", 1, "S", 0]]},
        {"op": "compact"}]})
    P.append({"id": "probe/rem_in_tree", "ops": [
        {"op": "tx", "ops": [["CreateNode", "1", "A"], ["CreateNode", "2", "A"], ["CreateEdge", 0, "R", 1], ["SetNP", 0, "p", "i:1"]]},
        {"op": "compact"},
        {"op": "tx", "ops": [["RemNP", 0, "p"]]}]})
    P.append({"id": "probe/rem_then_compact", "ops": [
        {"op": "tx", "ops": [["CreateNode", "1", "A"], ["CreateNode", "2", "A"], ["CreateEdge", 0, "R", 1], ["SetNP", 0, "p", "i:1"]]},
        {"op": "tx", "ops": [["RemNP", 0, "p"]]},
        {"op": "compact"}]})
    P.append({"id": "probe/label_change_checkpointed", "ops": [
        {"op": "tx", "ops": [["CreateNode", "1", "A"], ["CreateNode", "2", "A"], ["CreateEdge", 0, "R", 1]]},
        {"op": "tx", "ops": [["AddLabel", 0, "B"]]},
        {"op": "compact"},
        {"op": "reopen", "how": "close"}]})
    P.append({"id": "probe/edge_recreated", "ops": [
        {"op": "tx", "ops": [["CreateNode", "1", "A"], ["CreateNode", "2", "A"], ["CreateEdge", 0, "R", 1], ["SetEP", 0, "R", 1, "p", "i:1"]]},
        {"op": "tx", "ops": [["DelEdge", 0, "R", 1], ["CreateEdge", 0, "R", 1]]},
        {"op": "reopen", "how": "drop"}]})
    P.append({"id": "probe/edgefree_segment", "ops": [
        {"op": "tx", "ops": [["CreateNode", "1", "A"], ["SetNP", 0, "p", "i:1"]]},
        {"op": "compact"}]})
    P.append({"id": "probe/label_rem_then_add_same_tx", "ops": [
        {"op": "tx", "ops": [["CreateNode", "1", "A"]]},
        {"op": "tx", "ops": [["RemLabel", 0, "A"], ["AddLabel", 0, "A"]]}]})
    P.append({"id": "probe/edge_endpoint_deleted_same_tx", "ops": [
        {"op": "tx", "ops": [["CreateNode", "1", "A"], ["CreateNode", "2", "A"]]},
        {"op": "tx", "ops": [["CreateEdge", 0, "R", 1], ["CreateEdge", 1, "S", 0], ["DelNode", 1]]},
        {"op": "reopen", "how": "drop"}]})
    P.append({"id": "probe/overwrite_sunk_twice", "ops": [
        {"op": "tx", "ops": [["CreateNode", "1", "A"], ["CreateNode", "2", "A"], ["CreateEdge", 0, "R", 1],
                             ["SetNP", 0, "p", "i:1"], ["SetEP", 0, "R", 1, "p", "i:1"]]},
        {"op": "compact"},
        {"op": "tx", "ops": [["SetNP", 0, "p", "i:2"], ["SetEP", 0, "R", 1, "p", "i:2"], ["CreateEdge", 1, "R", 0]]},
        {"op": "compact"},
        {"op": "tx", "ops": [["SetNP", 0, "p", "i:3"], ["CreateEdge", 1, "S", 0]]},
        {"op": "compact"},
        {"op": "reopen", "how": "close"}]})
    return P


def gen_btree_seq(seed, sid, keylen, n_ops, n_keys, dup=False, observe_every=1, del_ratio=0.3):
    """Insert/delete sequences for the B-tree driver; with dup=False a key is live at most once."""
    rng = random.Random(seed)
    live = []          # (k, p)
    ops = []
    p = 0
    for _ in range(n_ops):
        r = rng.random()
        if live and r < del_ratio:
            k, pp = live.pop(rng.randrange(len(live)))
            ops.append(["del", k, pp])
        elif r < del_ratio + 0.03:
            ops.append(["reopen"])
        else:
            k = rng.randint(1, n_keys)
            if not dup and any(x[0] == k for x in live):
                continue
            p += 1
            live.append((k, p))
            ops.append(["ins", k, p])
    return {"id": sid, "keylen": keylen, "keys": list(range(1, n_keys + 1)), "observe_every": observe_every, "ops": ops}
