"""Per-property checks.  Every verdict comes from TLC evaluating a TLA+ specification:
either a model-checking run of an implementation-shaped model, or a trace specification
judging an execution of the real code recorded by the harness."""
import json
import os
import shutil
import time

import gen
import vlib
from vlib import ToolError, log

ASSUME_COMMON = [
    "the cfg(nervusdb_verif) hooks only observe (and, for fault injection, fail) I/O calls; they do not change engine logic",
    "TLC evaluates the TLA+ oracle correctly; the harness logs what the real API returned without interpretation",
]


# ------------------------------------------------------------------------------------------------
# storage family: one set of histories per mode, executed once, judged once, shared by properties
# ------------------------------------------------------------------------------------------------
def storage_histories(mode, tier, seed):
    hs = []
    if mode == "plain":
        n = 70 if tier == "quick" else 500
        for i in range(n):
            hs.append(gen.gen_history(seed * 100003 + i, "nc/%d" % i, "nocompact", n_ops=10))
        for i in range(n):
            hs.append(gen.gen_history(seed * 200003 + i, "cp/%d" % i, "compact", n_ops=12))
        if tier != "quick":
            for i in range(n // 2):
                hs.append(gen.gen_history(seed * 300007 + i, "long/%d" % i, "compact", n_ops=40, maxtx=8))
            for i in range(n // 2):
                hs.append(gen.gen_history(seed * 400009 + i, "free/%d" % i, "free", n_ops=14))
        hs += gen.probes()
    elif mode == "crash":
        n = 14 if tier == "quick" else 120
        for i in range(n):
            hs.append(gen.gen_history(seed * 500009 + i, "crash-nc/%d" % i, "nocompact", n_ops=6, maxtx=4))
        for i in range(n):
            hs.append(gen.gen_history(seed * 600011 + i, "crash-cp/%d" % i, "compact", n_ops=7, maxtx=4))
        # fixed shapes: names (labels, relationship types) interned by several transactions, then a compaction whose checkpoint
        # covers them, then more work - recovery after the compaction still needs the names of the older transactions
        N = lambda ext, l: ["CreateNode", str(ext), l]
        hs.append({"id": "crash-fixed/names-before-compaction", "flavour": "compact", "ops": [
            {"op": "tx", "ops": [N(101, "A")]}, {"op": "tx", "ops": [N(102, "B"), ["CreateEdge", 0, "R", 1]]},
            {"op": "compact"}, {"op": "tx", "ops": [N(103, "C"), ["CreateEdge", 2, "S", 0]]}]})
        hs.append({"id": "crash-fixed/two-compactions", "flavour": "compact", "ops": [
            {"op": "tx", "ops": [N(101, "A")]}, {"op": "tx", "ops": [N(102, "B"), ["CreateEdge", 0, "R", 1], ["SetNP", 0, "p", "i:1"]]},
            {"op": "compact"}, {"op": "tx", "ops": [N(103, "C"), ["CreateEdge", 2, "S", 0]]}, {"op": "compact"},
            {"op": "tx", "ops": [["SetNP", 2, "q", "s:x"], ["CreateEdge", 1, "R", 2]]}]})
        hs.append({"id": "crash-fixed/compaction-then-close", "flavour": "compact", "ops": [
            {"op": "tx", "ops": [N(101, "A"), N(102, "B"), ["CreateEdge", 0, "R", 1]]}, {"op": "tx", "ops": [N(103, "A"), ["CreateEdge", 2, "S", 1]]},
            {"op": "compact"}, {"op": "reopen", "how": "close"}, {"op": "tx", "ops": [N(104, "D"), ["CreateEdge", 3, "R", 0]]},
            {"op": "reopen", "how": "drop"}, {"op": "tx", "ops": [["SetNP", 3, "p", "i:2"]]}]})
    elif mode == "tails":
        n = 3 if tier == "quick" else 40
        for i in range(n):
            hs.append(gen.gen_history(seed * 510007 + i, "tail-nc/%d" % i, "nocompact", n_ops=5, maxtx=4))
        for i in range(n):
            hs.append(gen.gen_history(seed * 610009 + i, "tail-cp/%d" % i, "compact", n_ops=6, maxtx=4))
    elif mode == "fault":
        n = 5 if tier == "quick" else 40
        for i in range(n):
            hs.append(gen.gen_history(seed * 700001 + i, "fault-nc/%d" % i, "nocompact", n_ops=4, maxtx=3, aborts=False))
        for i in range(n):
            hs.append(gen.gen_history(seed * 800003 + i, "fault-cp/%d" % i, "compact", n_ops=5, maxtx=3, aborts=False))
    elif mode == "vacuum":
        n = 20 if tier == "quick" else 150
        for i in range(n):
            hs.append(gen.gen_history(seed * 900001 + i, "vac-nc/%d" % i, "nocompact", n_ops=8, vacuum=True) )
            hs[-1]["ops"].append({"op": "vacuum"})
            hs[-1]["ops"].append({"op": "tx", "ops": [["CreateNode", "777001", "V"]]})
            hs[-1]["ops"].append({"op": "reopen", "how": "drop"})
        for i in range(n):
            hs.append(gen.gen_history(seed * 910003 + i, "vac-cp/%d" % i, "compact", n_ops=8))
            hs[-1]["ops"].append({"op": "vacuum"})
            hs[-1]["ops"].append({"op": "tx", "ops": [["CreateNode", "777001", "V"]]})
            hs[-1]["ops"].append({"op": "reopen", "how": "drop"})
        for i in range(n // 2):
            hs.append(gen.gen_vacuum_deep(seed * 920011 + i, "vac-deep/%d" % i))
    return hs


def cache_dir(kind, tier, seed):
    fp = vlib.repo_fingerprint()
    base = os.path.join(vlib.WORK, "cache")
    prefix = "%s-%s-%s-" % (kind, tier, seed)
    d = os.path.join(base, prefix + fp)
    if os.path.isdir(base):
        for x in os.listdir(base):
            if x.startswith(prefix) and x != prefix + fp:
                shutil.rmtree(os.path.join(base, x), ignore_errors=True)
    return d


def storage_family(mode, tier, seed, histories=None, tag=None):
    """Runs the histories of `mode` through the real engine and judges the trace with StorageTrace."""
    tag = tag or mode
    cd = cache_dir("storage-" + tag, tier, seed)
    res_p = os.path.join(cd, "result.json")
    if histories is None and os.path.exists(res_p):
        return json.load(open(res_p))
    t0 = time.time()
    vlib.build_harness()
    if os.path.isdir(cd):
        shutil.rmtree(cd, ignore_errors=True)
    os.makedirs(cd, exist_ok=True)
    hs = histories if histories is not None else storage_histories(mode, tier, seed)
    hp = os.path.join(cd, "histories.ndjson")
    tp = os.path.join(cd, "trace.ndjson")
    vlib.write_ndjson(hp, hs)
    nvx_mode = {"vacuum": "plain"}.get(mode, mode)
    stats = vlib.nvx(["storage", "--mode", nvx_mode, "--in", hp, "--out", tp,
                      "--scratch", os.path.join(cd, "scratch")])
    shutil.rmtree(os.path.join(cd, "scratch"), ignore_errors=True)
    findings, info = vlib.tlc_trace("StorageTrace", tp, "trace-" + tag + "-" + tier)
    starts = vlib.split_trace(tp)
    for f in findings:
        f["history"] = vlib.history_of_line(starts, f["at"])
        ev = vlib.trace_line(tp, f["at"])
        for k in ("site", "during", "kind", "step"):
            if ev and k in ev and k != "kind":
                f[k] = ev[k]
        if ev and ev.get("ev") == "crash":
            f["image"] = ev.get("kind")
            if "tail" in ev:
                f["tail"] = ev["tail"]
    # fault mode: attach the failing I/O site of the history to each of its findings
    if mode == "fault":
        sites = {}
        cur = None
        with open(tp) as fh:
            for line in fh:
                e = json.loads(line)
                if e["ev"] == "reset":
                    cur = e.get("id")
                elif e["ev"] == "fault_info":
                    sites[cur] = (e.get("site"), e.get("kind"))
        for f in findings:
            if f.get("history") in sites:
                f["fault_site"], f["fault_kind"] = sites[f["history"]]
    # event census
    census = {}
    with open(tp) as fh:
        for line in fh:
            e = json.loads(line)
            k = e["ev"]
            if k == "dump":
                k = "dump/" + e.get("after", "")
            if k == "crash":
                k = "crash/" + e.get("kind", "") + "/" + e.get("during", "")
                if "tail" in e:
                    k = "tail/" + e["tail"] + "/" + e.get("during", "")
            census[k] = census.get(k, 0) + 1
    # binding self-test: a corrupted observation must be rejected
    selftest = binding_selftest(tp, cd, tag + "-" + tier)
    res = {"mode": mode, "tier": tier, "seed": seed, "trace": tp, "histories_file": hp,
           "n_histories": len(hs), "stats": stats, "tlc": info, "findings": findings,
           "census": census, "selftest": selftest, "wall_s": time.time() - t0,
           "samples": [hs[i] for i in range(0, len(hs), max(1, len(hs) // 3))][:3]}
    with open(res_p, "w") as fh:
        json.dump(res, fh)
    return res


def binding_selftest(trace_path, cd, tag):
    """Corrupt one recorded observation and require the trace specification to object."""
    lines = open(trace_path).read().splitlines()
    target = None
    for i, line in enumerate(lines):
        if line.startswith('{"after":"tx"') or '"ev":"dump"' in line:
            e = json.loads(line)
            if e.get("ev") == "dump" and e["d"]["npm"]:
                target = i
                break
    if target is None:
        return {"ran": False}
    # keep only the history containing the target line
    start = max(j for j in range(target + 1) if lines[j].startswith('{"ev":"reset"'))
    end = next((j for j in range(target + 1, len(lines)) if lines[j].startswith('{"ev":"reset"')), len(lines))
    e = json.loads(lines[target])
    e["d"]["npm"][0][2] = "s:__corrupted__"
    e["d"]["np1"] = [x for x in e["d"]["np1"]][1:]
    seg = lines[start:target] + [json.dumps(e, separators=(",", ":"))] + lines[target + 1:end]
    p = os.path.join(cd, "selftest.ndjson")
    open(p, "w").write("\n".join(seg) + "\n")
    f, _ = vlib.tlc_trace("StorageTrace", p, "selftest-" + tag)
    if not any(x["kind"] == "dump-mismatch" for x in f):
        raise ToolError("binding self-test failed: corrupted trace was accepted")
    return {"ran": True, "findings_on_corrupted_trace": len(f)}


# ------------------------------------------------------------------------------------------------
# model runs (cached)
# ------------------------------------------------------------------------------------------------
def model_run(spec, cfg, tier, tag, workers=8, timeout=1500, must_hold=True, extra=None):
    cd = cache_dir("model-" + tag, tier, 0)
    res_p = os.path.join(cd, "result.json")
    if os.path.exists(res_p):
        return json.load(open(res_p))
    os.makedirs(cd, exist_ok=True)
    r = vlib.tlc_model(spec, cfg, "model-" + tag + "-" + tier, workers=workers, timeout=timeout, extra=extra)
    out = r.pop("out")
    open(os.path.join(cd, "tlc.out"), "w").write(out)
    if r.get("error") or (r["timed_out"] and must_hold):
        raise ToolError("model run %s/%s failed: %s" % (spec, cfg, r.get("error") or "timeout"))
    if must_hold and not r["ok"]:
        raise ToolError("model %s/%s: unexpected %s\n%s" % (spec, cfg, r.get("violated"), vlib.tail_interesting(out, 50)))
    zero = [a for a, c in r["coverage"].items() if c == 0]
    r["never_taken"] = zero
    with open(res_p, "w") as fh:
        json.dump(r, fh)
    return r


# ------------------------------------------------------------------------------------------------
# the implementation-shaped Storage model: exhaustive runs, sensitivity runs, counterexample replay
# ------------------------------------------------------------------------------------------------
STORAGE_ACTIONS = ["Menu", "BeginCompact", "BeginClose", "Drop", "ProcessCrash", "PowerLoss",
                   "Commit_WalAppendOps", "Commit_WalAppendCommit", "Commit_WalFsync", "Commit_I2eWrite",
                   "Commit_I2eMetaSync", "Commit_LabelsApplied", "Commit_PublishLabels", "Commit_PublishRun",
                   "Compact_PersistSegment", "Compact_PagerSync", "Compact_SinkProps", "Compact_StatsAlloc",
                   "Compact_WalManifest", "Compact_WalFsync", "Compact_Publish", "Close_PagerSync",
                   "Close_TmpWrite", "Close_TmpSync", "Close_Rename", "Close_WalFsync", "Open"]

NEGATIVE_CFGS = {   # model constants changed away from what the code does: the model must object
    "MC_StorageNeg_NoFsync": ["DurableP", "PrefixP"],
    "MC_StorageNeg_NoTruncate": ["DurableP", "PrefixP"],
    "MC_StorageNeg_NoSegSync": ["PrefixP", "DurableP"],
    "MC_StorageNeg_NoStatsSync": ["PrefixP", "DurableP"],
}
KF_CFGS = {         # operation kinds of the known findings enabled: the model must reproduce them
    "MC_StorageKF_DelNode": ["KF-01"],
    "MC_StorageKF_DelEdge": ["KF-02"],
    "MC_StorageKF_Rem": ["KF-03", "KF-04"],
    "MC_StorageKF_Label": ["KF-05"],
    "MC_StorageKF_Recreate": ["KF-06"],
}


def cex_to_history(cex, hid):
    ops = []
    for e in cex:
        if e["op"] == "tx":
            txo = []
            for o in e["ops"]:
                o = list(o)
                if o[0] == "CreateNode":
                    o[1] = str(o[1])
                txo.append(o)
            ops.append({"op": "tx", "ops": txo})
        elif e["op"] == "compact":
            ops.append({"op": "compact"})
        elif e["op"] == "reopen":
            ops.append({"op": "reopen", "how": e["how"]})
    if ops and ops[-1]["op"] != "reopen" and any(e["op"] == "reopen" for e in cex) is False:
        pass
    return {"id": hid, "ops": ops}


def storage_model(tier, seed):
    """Exhaustive TLC run of Storage.tla (via StorageMC) with the constants that describe the code."""
    cfg = "MC_StorageQuick" if tier == "quick" else "MC_StorageClean"
    r = model_run("StorageMC", cfg, tier, "storage-clean", workers=8, timeout=3000)
    missing = [a for a in STORAGE_ACTIONS if r["coverage"].get(a, 0) == 0]
    if missing:
        raise ToolError("Storage model: actions never taken (vacuous run): %s" % missing)
    res = {"cfg": cfg, "states": r["states"], "transitions": r["transitions"], "depth": r["depth"],
           "wall_s": r["wall_s"], "actions_covered": len(STORAGE_ACTIONS), "coverage": r["coverage"]}
    if tier != "quick":
        neg = {}
        for c, expect in NEGATIVE_CFGS.items():
            n = model_run("StorageMC", c, tier, "storage-" + c, workers=8, timeout=1500, must_hold=False)
            if n.get("violated") not in expect:
                raise ToolError("sensitivity run %s: expected one of %s to be violated, got %s" % (c, expect, n.get("violated")))
            neg[c] = {"violated": n["violated"], "states": n["states"]}
        res["sensitivity"] = neg
        kf = {}
        known = vlib.load_known()
        for c, ids in KF_CFGS.items():
            n = model_run("StorageMC", c, tier, "storage-" + c, workers=8, timeout=1500, must_hold=False)
            if not n.get("violated"):
                raise ToolError("known-finding run %s: the model no longer reproduces the finding" % c)
            cex = None
            out = open(os.path.join(cache_dir("model-storage-" + c, tier, 0), "tlc.out")).read()
            import re
            m = re.search(r'<<"CEX", "(\w+)", "(.*)">>', out)
            if m:
                cex = json.loads(m.group(2).encode().decode("unicode_escape"))
            entry = {"violated": n["violated"], "states": n["states"], "cex": cex}
            if cex:
                h = cex_to_history(cex, "cex/" + c)
                if any(e["op"] == "reopen" for e in cex) and cex[-1]["op"] == "reopen":
                    pass
                fam = storage_family("plain", tier, seed, histories=[h], tag="cex-" + c)
                got = sorted({(vlib.match_known(f, known) or {"id": "UNKNOWN"})["id"] for f in fam["findings"]})
                entry["real_findings"] = got
                entry["reproduced_on_real_code"] = bool(got) and all(g in ids for g in got)
            kf[c] = entry
        res["known_finding_models"] = kf
    return res


def canon_view(d):
    return json.dumps({k: sorted(json.dumps(t) for t in d.get(k, [])) for k in
                       ["nodes", "ext", "e2i", "lab", "np1", "npm", "out", "outt", "inn", "innt", "ep1", "epm"]},
                      sort_keys=True)


def script_conformance(fam, tier, tag):
    """Storage.tla followed along the executed histories: are the real dumps / crash outcomes the
    ones the implementation-shaped model predicts?  Reported as drift, never as a verdict."""
    import re
    cd = os.path.dirname(fam["trace"])
    outp = os.path.join(cd, "conformance.json")
    if os.path.exists(outp):
        return json.load(open(outp))
    hs = [json.loads(l) for l in open(fam["histories_file"])]
    limit = 30 if tier == "quick" else 150
    hs = hs[:limit]
    sp = os.path.join(cd, "scripts.ndjson")
    vlib.write_ndjson(sp, hs)
    md = vlib.workdir("tlc/script-" + tag)
    env = {"SCRIPTS": sp, "JAVA_TOOL_OPTIONS": "-Xss256m -Xmx8g"}
    t0 = time.time()
    p = vlib.sh(["tlc", "-workers", "8", "-metadir", md, "-cleanup", "-noGenerateSpecTE", "-config",
                 os.path.join(vlib.SPEC, "StorageScript.cfg"), os.path.join(vlib.SPEC, "StorageScript.tla")],
                cwd=vlib.SPEC, env=env, timeout=3000, check=False)
    shutil.rmtree(md, ignore_errors=True)
    out = p.stdout
    if "Model checking completed. No error has been found." not in out:
        raise ToolError("script-driven model run failed:\n" + vlib.tail_interesting(out, 40))
    quies, outc = {}, {}
    for m in re.finditer(r'<<"(QUIESCENT|OUTCOME)", "(.*)">>', out):
        rec = json.loads(m.group(2).encode().decode("unicode_escape").encode("latin-1").decode("utf-8", "replace"))
        key = (rec["sid"], rec["op"])
        if m.group(1) == "QUIESCENT":
            quies.setdefault(key, set()).add(canon_view(rec["view"]))
        else:
            v = "open-failed" if rec["recov"] == "open-failed" else canon_view(rec["view"])
            outc.setdefault(key, set()).add(v)
    ids = {h["id"]: i + 1 for i, h in enumerate(hs)}
    q_ok = q_bad = c_ok = c_bad = 0
    seen_out = {}
    bad_samples = []
    sid = None
    last_op = 0
    with open(fam["trace"]) as fh:
        for line in fh:
            e = json.loads(line)
            if e["ev"] == "reset":
                sid = ids.get(e["id"])
                last_op = 0
            elif sid is None:
                continue
            elif e["ev"] in ("tx", "abort", "compact", "checkpoint", "reopen", "create_index", "vacuum"):
                last_op = e.get("i", last_op)
            elif e["ev"] == "dump":
                pv = quies.get((sid, last_op), set())
                if canon_view(e["d"]) in pv:
                    q_ok += 1
                else:
                    q_bad += 1
                    if len(bad_samples) < 5:
                        bad_samples.append({"kind": "quiescent", "sid": sid, "op": last_op})
            elif e["ev"] == "crash":
                key = (sid, e["op"])
                v = "open-failed" if e["open"] != "ok" else canon_view(e["d"])
                # an image of operation i may also equal the state before it started
                pv = outc.get(key, set()) | outc.get((sid, e["op"] - 1), set()) | quies.get((sid, e["op"] - 1), set())
                if v in pv:
                    c_ok += 1
                    seen_out.setdefault(key, set()).add(v)
                else:
                    c_bad += 1
                    if len(bad_samples) < 5:
                        bad_samples.append({"kind": "crash", "sid": sid, "op": e["op"], "site": e.get("site"), "image": e.get("kind")})
    predicted = sum(len(v) for v in outc.values())
    observed = sum(len(v & outc.get(k, set())) for k, v in seen_out.items())
    info = vlib.parse_tlc_stats(out)
    res = {"scripts": len(hs), "model_states": info.get("distinct", 0), "wall_s": round(time.time() - t0, 1),
           "quiescent_dumps_predicted": q_ok, "quiescent_dumps_not_predicted": q_bad,
           "crash_outcomes_predicted": c_ok, "crash_outcomes_not_predicted": c_bad,
           "model_outcomes": predicted, "model_outcomes_observed_on_real_code": observed,
           "drift_samples": bad_samples}
    json.dump(res, open(outp, "w"))
    return res


# ------------------------------------------------------------------------------------------------
# verdicts
# ------------------------------------------------------------------------------------------------
def verdict(prop, findings, trace_path=None, hist_file=None):
    """Prints KNOWN-FINDING / VIOLATION lines; returns (n_violations, n_known)."""
    known = vlib.load_known()
    mine = [f for f in findings if f.get("prop") == prop]
    nv = 0
    shown = set()
    hists = {}
    if hist_file and os.path.exists(hist_file):
        for line in open(hist_file):
            h = json.loads(line)
            hists[h["id"]] = h
    for f in mine:
        k = vlib.match_known(f, known)
        if k:
            if k["id"] not in shown:
                shown.add(k["id"])
                print("KNOWN-FINDING: property=%s %s [%s]" % (prop, k["what"], k["id"]))
            continue
        nv += 1
        if nv <= 5:
            hid = (f.get("history") or "").split("/f")[0] if "/f" in (f.get("history") or "") else f.get("history")
            payload = {"property": prop, "finding": f, "history": hists.get(hid), "trace": trace_path}
            rp = vlib.write_replay(prop, nv, payload)
            print("VIOLATION property=%s replay=%s" % (prop, rp))
            log("  finding: %s" % json.dumps(f))
    return nv, len(shown)


def storage_prop(prop, tier, seed, mode, relevant, level_note, replay=None, model=None, extra_findings=None):
    t0 = time.time()
    if replay:
        payload = json.load(open(replay))
        h = payload.get("history")
        if not h:
            raise ToolError("replay file has no history")
        fam = storage_family(mode, tier, seed, histories=[h], tag="replay-" + prop)
    else:
        fam = storage_family(mode, tier, seed)
    nv, nk = verdict(prop, fam["findings"] + (extra_findings or []), fam["trace"], fam["histories_file"])
    census = fam["census"]
    evals = sum(c for k, c in census.items() if any(k.startswith(r) for r in relevant))
    cov = {
        "traces_validated_against_impl": fam["n_histories"],
        "events_judged_for_this_property": evals,
        "event_census": census,
        "trace_spec_states": fam["tlc"].get("distinct", 0),
        "harness_stats": fam["stats"],
        "binding_selftest": fam["selftest"],
        "samples": fam["samples"],
        "known_findings_seen": nk,
        "findings_total_all_properties": len(fam["findings"]),
    }
    if model is None and not replay:
        model = storage_model(tier, seed)
    if not replay and mode in ("plain", "crash"):
        cov["model_conformance_drift_report"] = script_conformance(fam, tier, mode + "-" + tier)
    if model:
        cov["states"] = model["states"]
        cov["transitions"] = model["transitions"]
        cov["model"] = {k: model[k] for k in ("cfg", "depth", "wall_s", "actions_covered", "sensitivity", "known_finding_models") if k in model}
    else:
        cov["states"] = fam["tlc"].get("distinct", 0)
        cov["transitions"] = fam["tlc"].get("states_generated", 0)
    cov["evaluations"] = max(evals, 1)
    cov["distinct_nontrivial"] = fam["n_histories"]
    cov["rule"] = ("seeded histories (flavours nocompact/compact/free + probes), each executed on the real engine; "
                   "every recorded event is judged by StorageTrace.tla; distinct = histories with distinct seeds")
    if prop in SIDE_MODELS:
        cov["design_models"] = run_side_models(prop, tier)
    vlib.write_evidence(prop, tier, seed, "model_checking", cov, time.time() - t0, nv,
                        ASSUME_COMMON + [level_note])
    return 1 if nv else 0


REG = {}


def reg(pid):
    def d(f):
        REG[pid] = f
        return f
    return d


@reg("C04")
def c04(tier, seed, replay):
    return storage_prop("C04", tier, seed, "plain", ["dump/reopen", "reopen"],
                        "clean close/drop only; crash images belong to C01/C02", replay)


@reg("C05")
def c05(tier, seed, replay):
    return storage_prop("C05", tier, seed, "plain", ["dump/compact", "dump/checkpoint", "compact", "checkpoint"],
                        "compaction at arbitrary positions of generated histories", replay)


@reg("C06")
def c06(tier, seed, replay):
    return storage_prop("C06", tier, seed, "plain", ["dump/tx", "tx"],
                        "bounded id space (<= ~20 nodes per history), every PropertyValue kind as opaque values", replay)


@reg("C07")
def c07(tier, seed, replay):
    # a transaction also "ends without a successful commit" when the process dies inside it: the crash
    # family's images must never show part of it (those findings are reported under C02 as well)
    extra = []
    if not replay:
        fam = storage_family("crash", tier, seed)
        for f in fam["findings"]:
            if f.get("prop") in ("C02", "C01") and f.get("kind") in ("not-a-prefix", "followup-mismatch", "followup-lost"):
                g = dict(f)
                g["prop"] = "C07"
                g["via"] = "crash-family"
                extra.append(g)
    return storage_prop("C07", tier, seed, "plain", ["dump/abort", "abort"],
                        "dropped Rust write transactions, plus transactions cut by a crash (crash family); rollback through "
                        "the C API is covered by the C13/C24 checks", replay, extra_findings=extra)


@reg("C01")
def c01(tier, seed, replay):
    return storage_prop("C01", tier, seed, "crash", ["crash/"],
                        "crash images: process death after every I/O step, power loss = every file as of its last sync_data", replay)


@reg("C02")
def c02(tier, seed, replay):
    return storage_prop("C02", tier, seed, "crash", ["crash/"],
                        "crash images: process death after every I/O step, power loss = every file as of its last sync_data", replay)


@reg("C17")
def c17(tier, seed, replay):
    return storage_prop("C17", tier, seed, "tails", ["tail/"],
                        "process-death images at every I/O step, each extended by zeros / random bytes / a huge "
                        "length / a short body / a bad checksum / a flipped bit in the last record", replay)


@reg("C08")
def c08(tier, seed, replay):
    return storage_prop("C08", tier, seed, "fault", ["fault_info", "dump/"],
                        "one injected I/O error per run, at every I/O step of commit / compaction / close", replay)


@reg("C28")
def c28(tier, seed, replay):
    # (1) large databases (node table of several pages, relocated table, B-trees of depth > 1, blob chains, vectors)
    #     vacuumed while closed, judged by PagesTrace under C28
    import pagechecks
    vlib.build_harness()
    if replay and json.load(open(replay)).get("scenario"):
        sc = [json.load(open(replay))["scenario"]]
        pf = pagechecks.pages_family("vacuum-replay", sc, tier, seed)
        nv, nk = generic_verdict("C28", pf["findings"], lambda f: {"property": "C28", "finding": f, "scenario": sc[0]})
        return 1 if nv else 0
    sc = pagechecks.vacuum_page_scenarios(tier, seed)
    pf = pagechecks.pages_family("vacuum", sc, tier, seed)
    by_id = {s["id"]: s for s in sc}
    nv2, _ = generic_verdict("C28", pf["findings"], lambda f: {"property": "C28", "finding": f, "scenario": by_id.get(f.get("id"))})
    # (2) small generated histories with every dump judged per read interface (StorageTrace)
    rc = storage_prop("C28", tier, seed, "vacuum", ["vacuum", "dump/vacuum"],
                      "vacuum of a cleanly closed database", replay)
    ep = os.path.join(vlib.EVIDENCE, "C28.json")
    ev = json.load(open(ep))
    ev["coverage"]["large_databases"] = {"scenarios": len(sc), "harness_stats": pf["stats"], "findings": len(pf["findings"]),
                                         "rule": "600-1150 nodes (node table of two or three pages, relocated table), index, 20 kB values, vector index, "
                                                 "compactions; close, vacuum, reopen, every node / relationship / value read back and compared by "
                                                 "PagesTrace, one more transaction, reopen, compared again"}
    ev["violations"] = int(ev.get("violations", 0)) + nv2
    json.dump(ev, open(ep, "w"), indent=1, sort_keys=True)
    return 1 if (rc or nv2) else 0


# small design-level models that accompany a trace-validation check: (module, config, expected outcome)
# expected = "holds" or the name of the invariant the configuration must violate (sensitivity / known-finding reproduction)
SIDE_MODELS = {
    "C17": [("WalTail", "MC_WalTail", "holds"), ("WalTail", "MC_WalTailNeg_OffsetPastBadCrc", "NoJunkSurvivesOpen")],
    "C15": [("Index", "MC_Index_Repaired", "holds"), ("Index", "MC_IndexKF_NoBackfill", "IndexTransparent"),
            ("Index", "MC_IndexKF_FirstLabel", "IndexTransparent"), ("Index", "MC_IndexKF_NumberKinds", "IndexTransparent"),
            ("Index", "MC_IndexKF_Pinned", "IndexTransparent")],
    "C29": [("Backup", "MC_Backup", "holds"), ("Backup", "MC_BackupKF_CompactBetween", "BackupConsistent"),
            ("Backup", "MC_BackupNeg_WalFirst", "BackupConsistent")],
}


def run_side_models(prop, tier):
    out = {}
    for spec, cfg, expect in SIDE_MODELS.get(prop, []):
        r = model_run(spec, cfg, tier, "side-" + cfg, workers=4, timeout=1800, must_hold=(expect == "holds"))
        if expect != "holds" and r.get("violated") != expect:
            raise ToolError("%s/%s must violate %s, got %r" % (spec, cfg, expect, r.get("violated")))
        out[cfg] = {"module": spec, "expected": expect, "states": r["states"],
                    "outcome": "holds" if expect == "holds" else "violates " + expect + " (as it must)"}
    return out


def generic_verdict(prop, findings, payload_of):
    known = vlib.load_known()
    nv = 0
    shown = set()
    for f in findings:
        if f.get("prop") != prop:
            continue
        k = vlib.match_known(f, known)
        if k:
            if k["id"] not in shown:
                shown.add(k["id"])
                print("KNOWN-FINDING: property=%s %s [%s]" % (prop, k["what"], k["id"]))
            continue
        nv += 1
        if nv <= 5:
            rp = vlib.write_replay(prop, nv, payload_of(f))
            print("VIOLATION property=%s replay=%s" % (prop, rp))
            log("  finding: %s" % json.dumps(f))
    return nv, len(shown)


def seq_of_line(trace_path, line):
    cur = None
    with open(trace_path) as fh:
        for i, l in enumerate(fh, 1):
            if l.startswith('{"ev":"reset"'):
                cur = json.loads(l).get("id")
            if i >= line:
                break
    return cur


@reg("C26")
def c26(tier, seed, replay):
    t0 = time.time()
    vlib.build_harness()
    cd = cache_dir("btree", tier, seed)
    os.makedirs(cd, exist_ok=True)
    # (1) the implementation-shaped model, exhaustively, for sequences in which a key is live at most once
    cfg = "MC_BTreeUniqueQuick" if tier == "quick" else "MC_BTreeUnique"
    m = model_run("BTree", cfg, tier, "btree-unique", workers=8, timeout=3000)
    # (2) with equal keys the model must reproduce the known finding, and its counterexample must
    #     reproduce on the real tree
    kfm = model_run("BTree", "MC_BTreeDup", tier, "btree-dup", workers=4, timeout=600, must_hold=False)
    if not kfm.get("violated"):
        raise ToolError("BTree model no longer reproduces the equal-keys finding")
    import re
    out = open(os.path.join(cache_dir("model-btree-dup", tier, 0), "tlc.out")).read()
    mm = re.search(r'<<"CEX", "(\w+)", "(.*)">>', out)
    cex = json.loads(mm.group(2).encode().decode("unicode_escape")) if mm else []
    # (3) executions of the real tree
    if replay:
        seqs = [json.load(open(replay))["sequence"]]
    else:
        n = 40 if tier == "quick" else 400
        seqs = []
        for i in range(n):
            seqs.append(gen.gen_btree_seq(seed * 1009 + i, "uniq2/%d" % i, 3500, 40, 12, dup=False))
            seqs.append(gen.gen_btree_seq(seed * 2003 + i, "uniq4/%d" % i, 2000, 60, 20, dup=False))
        for i in range(3 if tier == "quick" else 20):
            seqs.append(gen.gen_btree_seq(seed * 3001 + i, "short/%d" % i, 8, 4000 if tier == "quick" else 20000, 3000,
                                          dup=False, observe_every=500, del_ratio=0.35))
        for i in range(4):
            seqs.append(gen.gen_btree_seq(seed * 4001 + i, "dup/%d" % i, 3500 if i % 2 else 2000, 30, 3, dup=True))
        seqs.append({"id": "cex/MC_BTreeDup", "keylen": 3500, "keys": [1, 2, 3, 4, 5, 6, 7], "ops": cex})
    sp = os.path.join(cd, "seqs.ndjson")
    tp = os.path.join(cd, "trace.ndjson")
    vlib.write_ndjson(sp, seqs)
    stats = vlib.nvx(["btree", "--in", sp, "--out", tp, "--scratch", os.path.join(cd, "scratch")])
    findings, info = vlib.tlc_trace("BTreeTrace", tp, "btree-" + tier)
    by_id = {s["id"]: s for s in seqs}
    for f in findings:
        f["sequence"] = seq_of_line(tp, f["at"])
    cex_reproduced = any(f["sequence"] == "cex/MC_BTreeDup" for f in findings) if not replay else None
    # binding self-test: drop one scanned pair from a recorded observation
    lines = open(tp).read().splitlines()
    tgt = next((i for i, l in enumerate(lines) if '"ev":"obs"' in l and len(json.loads(l)["scan"]) > 2), None)
    selftest = {"ran": False}
    if tgt is not None and not replay:
        start = max(j for j in range(tgt + 1) if lines[j].startswith('{"ev":"reset"'))
        e = json.loads(lines[tgt]); e["scan"] = e["scan"][1:]
        stp = os.path.join(cd, "selftest.ndjson")
        open(stp, "w").write("\n".join(lines[start:tgt] + [json.dumps(e)]) + "\n")
        sf, _ = vlib.tlc_trace("BTreeTrace", stp, "btree-selftest")
        if not any(x["kind"] == "scan-mismatch" for x in sf):
            raise ToolError("binding self-test failed: corrupted B-tree trace accepted")
        selftest = {"ran": True, "findings_on_corrupted_trace": len(sf)}
    nv, nk = generic_verdict("C26", findings, lambda f: {"property": "C26", "finding": f, "sequence": by_id.get(f["sequence"])})
    cov = {"states": m["states"], "transitions": m["transitions"],
           "model": {"cfg": cfg, "depth": m["depth"], "wall_s": m["wall_s"],
                     "equal_keys_model_violates": kfm.get("violated"), "equal_keys_cex": cex,
                     "cex_reproduced_on_real_tree": cex_reproduced},
           "traces_validated_against_impl": len(seqs), "harness_stats": stats,
           "trace_spec_states": info.get("distinct", 0), "binding_selftest": selftest,
           "samples": [seqs[0], seqs[-1]] if len(seqs) > 1 else seqs,
           "evaluations": stats.get("observations", 1), "distinct_nontrivial": len(seqs),
           "rule": "seeded insert/delete/reopen sequences at fan-out 2, 4 and ~400; every observation (scan, lookups, delete result) judged by BTreeTrace.tla",
           "known_findings_seen": nk}
    vlib.write_evidence("C26", tier, seed, "model_checking", cov, time.time() - t0, nv,
                        ASSUME_COMMON + ["fan-out 2 and 4 are obtained with 3500- and 2000-byte keys; the model uses the same page capacities"])
    return 1 if nv else 0


def run(prop, tier, seed, replay):
    import cychecks  # noqa: F401  (registers the Cypher-level checks)
    import conchecks  # noqa: F401  (schedule-driven checks)
    import pagechecks  # noqa: F401  (page ownership)
    if prop not in REG:
        print("property %s has no check (see MANIFEST.not_applicable)" % prop)
        return 2
    return REG[prop](tier, seed, replay)
