"""Random graphs and random well-scoped read queries of the C11 fragment, as ASTs
(the shape documented in spec/CypherSem.tla) plus their Cypher text.

The AST goes to TLC (reference evaluator), the text to the engine.  No expected
values are computed here."""
import random


# ----------------------------------------------------------------------------- values
def big(i):
    s = 1 if i > 0 else (-1 if i < 0 else 0)
    a, m = abs(i), []
    while a:
        m.append(a % 10000)
        a //= 10000
    return {"s": s, "m": m or [0]}


def tv_int(i):
    return ["int", big(i)]


def tv_float_halves(twice):   # value = twice / 2
    if twice % 2 == 0:
        return ["float", {"k": "fin", "neg0": False, "n": big(twice // 2), "e": 0}]
    return ["float", {"k": "fin", "neg0": False, "n": big(twice), "e": 1}]


def tv_str(s):
    return ["str", [ord(c) for c in s]]


def tv_of(py):
    if py is None:
        return ["null"]
    if py is True or py is False:
        return ["bool", py]
    if isinstance(py, int):
        return tv_int(py)
    if isinstance(py, float):
        return tv_float_halves(int(py * 2))
    if isinstance(py, str):
        return tv_str(py)
    if isinstance(py, list):
        return ["list", [tv_of(x) for x in py]]
    raise ValueError(py)


def lit_text(py):
    if py is None:
        return "null"
    if py is True:
        return "true"
    if py is False:
        return "false"
    if isinstance(py, str):
        return "'" + py + "'"
    if isinstance(py, list):
        return "[" + ", ".join(lit_text(x) for x in py) + "]"
    return repr(py)


def lit(py):
    return {"ast": ["lit", tv_of(py)], "text": lit_text(py)}


# ----------------------------------------------------------------------------- graphs
PVALS = [None, None, 1, 2, 1.5, "a", True]
QVALS = [None, 1, 2, 2]
WVALS = [None, 1, 2]


def gen_graph(rng, flavour):
    n = rng.randint(2, 5)
    nodes = []
    for i in range(n):
        labels = rng.choice([["A"], ["B"], ["A", "B"], ["A"], ["A", "B"], []])
        props = {}
        p, q = rng.choice(PVALS), rng.choice(QVALS)
        if p is not None:
            props["p"] = p
        if q is not None:
            props["q"] = q
        nodes.append((labels, props))
    rels = []
    for _ in range(rng.randint(2, 8)):
        s, d = rng.randrange(n), rng.randrange(n)
        if flavour != "loops" and s == d:
            continue
        t = rng.choice(["R", "R", "S"])
        w = rng.choice(WVALS)
        rels.append((s, t, d, {} if w is None else {"w": w}))
    if flavour == "parallel" and rels:
        s, t, d, w = rng.choice(rels)
        rels.append((s, t, d, {}))
    if flavour == "loops":
        k = rng.randrange(n)
        rels.append((k, "R", k, {}))

    def props_text(ps):
        return (" {" + ", ".join("%s: %s" % (k, lit_text(v)) for k, v in sorted(ps.items())) + "}") if ps else ""

    parts = ["(n%d%s%s)" % (i, "".join(":" + l for l in ls), props_text(ps)) for i, (ls, ps) in enumerate(nodes)]
    half = len(rels) // 2 if flavour == "layered" else len(rels)
    first = parts + ["(n%d)-[:%s%s]->(n%d)" % (s, t, props_text(w), d) for (s, t, d, w) in rels[:half]]
    setup = ["CREATE " + ", ".join(first)]
    if flavour == "layered":
        setup.append("#compact")
        # node ids equal creation order in a fresh database, which the second statement relies on;
        # the reference uses the dumped graph, whatever it turns out to be
        for (s, t, d, w) in rels[half:]:
            setup.append("MATCH (a), (b) WHERE id(a) = %d AND id(b) = %d CREATE (a)-[:%s%s]->(b)" % (s, d, t, props_text(w)))
    if flavour == "compacted":
        setup.append("#compact")
    return setup


# ----------------------------------------------------------------------------- queries
class Gen:
    def __init__(self, rng):
        self.rng = rng
        self.scope = {}      # var -> kind: node | rel | rels | val
        self.counter = 0

    def fresh(self, prefix):
        self.counter += 1
        return "%s%d" % (prefix, self.counter)

    # --- expressions
    def scalar(self, depth=0):
        r = self.rng
        nodes = [v for v, k in self.scope.items() if k == "node"]
        rels = [v for v, k in self.scope.items() if k == "rel"]
        vals = [v for v, k in self.scope.items() if k == "val"]
        choices = ["lit"]
        if nodes:
            choices += ["np", "np", "nq", "id"]
        if rels:
            choices += ["rw", "type"]
        if vals:
            choices += ["val", "val"]
        c = r.choice(choices)
        if c == "lit":
            return lit(r.choice([1, 2, 1.5, "a", True, None, 0]))
        if c in ("np", "nq"):
            v = r.choice(nodes)
            k = "p" if c == "np" else "q"
            return {"ast": ["prop", ["var", v], k], "text": "%s.%s" % (v, k)}
        if c == "id":
            v = r.choice(nodes)
            return {"ast": ["id", ["var", v]], "text": "id(%s)" % v}
        if c == "rw":
            v = r.choice(rels)
            return {"ast": ["prop", ["var", v], "w"], "text": "%s.w" % v}
        if c == "type":
            v = r.choice(rels)
            return {"ast": ["type", ["var", v]], "text": "type(%s)" % v}
        v = r.choice(vals)
        return {"ast": ["var", v], "text": v}

    def pred(self, depth=0):
        r = self.rng
        nodes = [v for v, k in self.scope.items() if k == "node"]
        c = r.choice(["cmp", "cmp", "cmp", "isnull", "notnull", "haslabel", "and", "or", "not", "in", "xor"]
                     if depth < 2 else ["cmp", "isnull", "haslabel"])
        if c == "haslabel" and not nodes:
            c = "cmp"
        if c == "cmp":
            op = r.choice(["=", "=", "<>", "<", "<=", ">", ">="])
            a, b = self.scalar(), self.scalar()
            return {"ast": ["cmp", op, a["ast"], b["ast"]], "text": "%s %s %s" % (a["text"], op, b["text"])}
        if c in ("isnull", "notnull"):
            a = self.scalar()
            return {"ast": [c, a["ast"]], "text": "%s IS %sNULL" % (a["text"], "NOT " if c == "notnull" else "")}
        if c == "haslabel":
            v, l = r.choice(nodes), r.choice(["A", "B"])
            return {"ast": ["haslabel", ["var", v], l], "text": "%s:%s" % (v, l)}
        if c in ("and", "or", "xor"):
            a, b = self.pred(depth + 1), self.pred(depth + 1)
            return {"ast": [c, a["ast"], b["ast"]], "text": "(%s) %s (%s)" % (a["text"], c.upper(), b["text"])}
        if c == "not":
            a = self.pred(depth + 1)
            return {"ast": ["not", a["ast"]], "text": "NOT (%s)" % a["text"]}
        a = self.scalar()
        items = [self.rng.choice([1, 2, "a", None, 1.5]) for _ in range(r.randint(0, 3))]
        return {"ast": ["in", a["ast"], ["lit", tv_of(items)]], "text": "%s IN %s" % (a["text"], lit_text(items))}

    # --- patterns
    def node_pat(self, reuse_ok=True):
        r = self.rng
        bound = [v for v, k in self.scope.items() if k == "node"]
        if reuse_ok and bound and r.random() < 0.35:
            v = r.choice(bound)
            return {"v": v, "labels": [], "props": []}, "(%s)" % v, None
        v = self.fresh("n") if r.random() < 0.85 else ""
        labels = [r.choice(["A", "B"])] if r.random() < 0.25 else []
        props, ptxt = [], ""
        if r.random() < 0.06:
            val = r.choice([1, 2, "a"])
            k = r.choice(["p", "q"])
            props = [[k, ["lit", tv_of(val)]]]
            ptxt = " {%s: %s}" % (k, lit_text(val))
        return {"v": v, "labels": labels, "props": props}, "(%s%s%s)" % (v, "".join(":" + l for l in labels), ptxt), v

    def rel_pat(self):
        r = self.rng
        v = self.fresh("r") if r.random() < 0.6 else ""
        types = r.choice([[], [], [], ["R"], ["S"], ["R", "S"], ["R", "S"]])
        d = r.choice(["out", "out", "in", "both"])
        lo, hi = 1, 1
        if r.random() < 0.15:
            lo, hi = r.choice([(1, 2), (2, 2), (1, 3)])
        inner = v + (":" + "|".join(types) if types else "")
        if (lo, hi) != (1, 1):
            inner += "*%d..%d" % (lo, hi)
        txt = "-[%s]-" % inner
        if d == "out":
            txt += ">"
        elif d == "in":
            txt = "<" + txt
        kind = "rel" if (lo, hi) == (1, 1) else "rels"
        return {"v": v, "types": types, "dir": d, "lo": lo, "hi": hi}, txt, v, kind

    def pattern(self):
        r = self.rng
        hops = r.choice([0, 0, 1, 1, 1, 2])
        nodes, rels, txt, newvars = [], [], "", []
        np, t, nv = self.node_pat()
        nodes.append(np)
        txt += t
        if nv:
            newvars.append((nv, "node"))
        for _ in range(hops):
            rp, t, rv, kind = self.rel_pat()
            rels.append(rp)
            txt += t
            if rv:
                newvars.append((rv, kind))
            np, t, nv = self.node_pat()
            nodes.append(np)
            txt += t
            if nv:
                newvars.append((nv, "node"))
        for v, k in newvars:
            self.scope[v] = k
        return {"nodes": nodes, "rels": rels}, txt

    def match(self, opt):
        r = self.rng
        pats, txts = [], []
        for _ in range(1 if r.random() < 0.85 else 2):
            p, t = self.pattern()
            pats.append(p)
            txts.append(t)
        where, wtxt = ["none"], ""
        if r.random() < 0.35:
            w = self.pred()
            where, wtxt = w["ast"], " WHERE " + w["text"]
        return ({"t": "match", "opt": opt, "pats": pats, "where": where},
                ("OPTIONAL " if opt else "") + "MATCH " + ", ".join(txts) + wtxt)

    def unwind(self):
        r = self.rng
        items = [r.choice([1, 2, None, "a"]) for _ in range(r.randint(0, 3))]
        v = self.fresh("x")
        self.scope[v] = "val"
        return ({"t": "unwind", "list": ["lit", tv_of(items)], "var": v}, "UNWIND %s AS %s" % (lit_text(items), v))

    # --- projections
    def proj(self, final):
        r = self.rng
        items, texts, kinds = [], [], []
        use_agg = r.random() < 0.3
        names = set()

        def add(ast, text, kind, alias=None):
            alias = alias or self.fresh("c")
            items.append({"e": ast, "as": alias})
            texts.append("%s AS %s" % (text, alias))
            kinds.append(kind)
            names.add(alias)

        nkeys = r.randint(0 if use_agg else 1, 2 if use_agg else 3)
        for _ in range(nkeys):
            vs = [(v, k) for v, k in self.scope.items()]
            if vs and r.random() < 0.35:
                v, k = r.choice(vs)
                add(["var", v], v, k)
            else:
                s = self.scalar()
                add(s["ast"], s["text"], "val")
        if use_agg:
            for _ in range(r.randint(1, 2)):
                fn = r.choice(["count*", "count", "count", "collect", "min", "max", "sum"] if final
                              else ["count*", "count", "count", "min", "max", "sum"])   # a collected list has no fixed order
                if fn == "count*":
                    add(["agg", "count*", False, ["lit", ["null"]]], "count(*)", "val")
                    continue
                dist = r.random() < 0.25
                if fn == "sum":
                    nodes = [v for v, k in self.scope.items() if k == "node"]
                    if not nodes:
                        add(["agg", "count*", False, ["lit", ["null"]]], "count(*)", "val")
                        continue
                    v = r.choice(nodes)
                    if r.random() < 0.5:
                        arg = {"ast": ["id", ["var", v]], "text": "id(%s)" % v}
                    else:
                        arg = {"ast": ["prop", ["var", v], "q"], "text": "%s.q" % v}
                else:
                    arg = self.scalar()
                if fn in ("min", "max") and arg["text"].endswith(".p"):
                    # p holds values of several kinds; min/max across kinds is not part of the fragment
                    arg = {"ast": ["lit", tv_of(1)], "text": "1"}
                add(["agg", fn, dist, arg["ast"]], "%s(%s%s)" % (fn, "DISTINCT " if dist else "", arg["text"]),
                    "bag" if fn == "collect" else "val")
        distinct = (not use_agg) and r.random() < 0.2
        order, otxt = [], []
        skip = limit = -1
        if final:
            sortable = [i for i, k in enumerate(kinds) if k == "val"]
            if sortable and r.random() < 0.4:
                for i in r.sample(sortable, min(len(sortable), r.randint(1, 2))):
                    d = r.choice([1, 1, -1])
                    order.append([i + 1, d])
                    otxt.append(items[i]["as"] + (" DESC" if d < 0 else ""))
            if r.random() < 0.2:
                skip = r.randint(0, 2)
            if r.random() < 0.25:
                limit = r.randint(0, 4)
        pj = {"distinct": distinct, "items": items, "order": order, "skip": skip, "limit": limit}
        txt = ("DISTINCT " if distinct else "") + ", ".join(texts)
        if otxt:
            txt += " ORDER BY " + ", ".join(otxt)
        if skip >= 0:
            txt += " SKIP %d" % skip
        if limit >= 0:
            txt += " LIMIT %d" % limit
        return pj, txt, dict(zip([it["as"] for it in items], kinds))

    def query(self):
        r = self.rng
        parts, texts = [], []
        p, t = self.match(False) if r.random() < 0.9 else self.unwind()
        parts.append(p)
        texts.append(t)
        for _ in range(r.choice([0, 0, 1, 1, 2])):
            c = r.choice(["opt", "opt", "match", "unwind", "with"])
            if c == "with":
                pj, t, kinds = self.proj(False)
                self.scope = {a: (k if k != "bag" else "list") for a, k in kinds.items()}
                where, wtxt = ["none"], ""
                if r.random() < 0.4 and any(k == "val" for k in self.scope.values()):
                    save = dict(self.scope)
                    self.scope = {a: k for a, k in save.items() if k in ("val", "node", "rel")}
                    w = self.pred(1)
                    self.scope = save
                    where, wtxt = w["ast"], " WHERE " + w["text"]
                parts.append({"t": "with", "proj": pj, "where": where})
                texts.append("WITH " + t + wtxt)
            elif c == "unwind":
                p, t = self.unwind()
                parts.append(p)
                texts.append(t)
            else:
                p, t = self.match(c == "opt")
                parts.append(p)
                texts.append(t)
        if not self.scope:
            p, t = self.unwind()
            parts.append(p)
            texts.append(t)
        ret, t, _ = self.proj(True)
        return {"parts": parts, "ret": ret}, " ".join(texts) + " RETURN " + t


def read_sessions(tier, seed):
    rng = random.Random(seed)
    n_graphs = 12 if tier == "quick" else 80
    per = 25 if tier == "quick" else 40
    sessions = []
    for g in range(n_graphs):
        flavour = ["plain", "plain", "parallel", "loops", "compacted", "layered"][g % 6]
        setup = gen_graph(rng, flavour)
        cases = []
        for c in range(per):
            ast, text = Gen(rng).query()
            cases.append({"cid": c + 1, "kind": "read", "query": text, "meta": {"ast": ast, "flavour": flavour}})
        sessions.append({"id": "read/%d" % g, "setup": setup, "dump": True, "cases": cases})
    sessions += varlen_sessions(tier)
    return sessions


# variable-length patterns between endpoints that are already bound, on graphs whose end nodes lie on cycles / carry self
# loops / have parallel relationships (one row per distinct trail, also the trails that pass through the end node)
VARLEN_GRAPHS = [
    ["CREATE (a:A {p: 1})-[:R]->(b:B {p: 2})-[:R]->(c:A {p: 3})-[:R]->(b), (a)-[:S]->(d:B {p: 4}), (d)-[:R]->(d)"],
    ["CREATE (a:A {p: 1})-[:R]->(b:B {p: 2}), (a)-[:R]->(b), (b)-[:R]->(a), (b)-[:S]->(b)"],
    ["CREATE (a:A {p: 1})-[:R]->(b:A {p: 2})-[:R]->(c:B {p: 3})-[:R]->(a), (c)-[:S]->(c)", "#compact",
     "MATCH (x), (y) WHERE id(x) = 1 AND id(y) = 0 CREATE (x)-[:R]->(y)"],
]


def varlen_sessions(tier):
    def node(v, labels=()):
        return {"v": v, "labels": list(labels), "props": []}

    def single(v, labels=()):
        return {"nodes": [node(v, labels)], "rels": []}

    def ntxt(v, labels=()):
        return "(%s%s)" % (v, "".join(":" + l for l in labels))

    def rtxt(types, d, lo, hi):
        inner = (":" + "|".join(types) if types else "") + "*%d..%d" % (lo, hi)
        t = "-[%s]-" % inner
        return t + ">" if d == "out" else ("<" + t if d == "in" else t)

    count = ["agg", "count*", False, ["lit", ["null"]]]
    sessions = []
    bounds = [(1, 2), (1, 3), (2, 3)] if tier == "quick" else [(1, 2), (1, 3), (2, 3), (2, 2), (1, 4), (3, 4)]
    for gi, setup in enumerate(VARLEN_GRAPHS):
        cases, cid = [], 0
        for (lo, hi) in bounds:
            for types in ([], ["R"]):
                for d in ("out", "in", "both"):
                    rel = {"v": "", "types": types, "dir": d, "lo": lo, "hi": hi}
                    shapes = []
                    # both endpoints bound by an earlier MATCH
                    shapes.append(([{"t": "match", "opt": False, "pats": [single("x"), single("y")], "where": ["none"]},
                                    {"t": "match", "opt": False, "pats": [{"nodes": [node("x"), node("y")], "rels": [rel]}], "where": ["none"]}],
                                   "MATCH (x), (y) MATCH (x)%s(y)" % rtxt(types, d, lo, hi), ["x", "y"]))
                    # a trail back to its start
                    shapes.append(([{"t": "match", "opt": False, "pats": [{"nodes": [node("x"), node("x")], "rels": [rel]}], "where": ["none"]}],
                                   "MATCH (x)%s(x)" % rtxt(types, d, lo, hi), ["x"]))
                    # endpoints bound by a fixed-length hop, labels on the first MATCH
                    one = {"v": "r", "types": [], "dir": "out", "lo": 1, "hi": 1}
                    shapes.append(([{"t": "match", "opt": False, "pats": [{"nodes": [node("x", ["A"]), node("y")], "rels": [one]}], "where": ["none"]},
                                    {"t": "match", "opt": False, "pats": [{"nodes": [node("y"), node("x")], "rels": [rel]}], "where": ["none"]}],
                                   "MATCH (x:A)-[r]->(y) MATCH (y)%s(x)" % rtxt(types, d, lo, hi), ["x", "y"]))
                    for parts, text, keys in shapes:
                        items = [{"e": ["id", ["var", k]], "as": "c%d" % (i + 1)} for i, k in enumerate(keys)]
                        items.append({"e": count, "as": "n"})
                        ret = {"distinct": False, "items": items, "order": [], "skip": -1, "limit": -1}
                        q = text + " RETURN " + ", ".join("id(%s) AS c%d" % (k, i + 1) for i, k in enumerate(keys)) + ", count(*) AS n"
                        cid += 1
                        cases.append({"cid": cid, "kind": "read", "query": q, "meta": {"ast": {"parts": parts, "ret": ret}, "flavour": "varlen-bound"}})
        sessions.append({"id": "read/varlen/%d" % gi, "setup": setup, "dump": True, "cases": cases})
    return sessions


# ----------------------------------------------------------------------------- C15: index histories
IDX_VALUES = [1, 2, 1.0, "a", True]


def lookup_cases(cid0, indexed):
    """equality lookups for every (label, value) in two syntactic forms, as read ASTs"""
    cases = []
    cid = cid0
    for lab in ("L1", "L2"):
        for v in IDX_VALUES:
            npat_where = {"nodes": [{"v": "n", "labels": [lab], "props": []}], "rels": []}
            ret = {"distinct": False, "items": [{"e": ["id", ["var", "n"]], "as": "i"}], "order": [], "skip": -1, "limit": -1}
            ast1 = {"parts": [{"t": "match", "opt": False, "pats": [npat_where],
                               "where": ["cmp", "=", ["prop", ["var", "n"], "p"], ["lit", tv_of(v)]]}], "ret": ret}
            q1 = "MATCH (n:%s) WHERE n.p = %s RETURN id(n) AS i" % (lab, lit_text(v))
            npat_inline = {"nodes": [{"v": "n", "labels": [lab], "props": [["p", ["lit", tv_of(v)]]]}], "rels": []}
            ast2 = {"parts": [{"t": "match", "opt": False, "pats": [npat_inline], "where": ["none"]}], "ret": ret}
            q2 = "MATCH (n:%s {p: %s}) RETURN id(n) AS i" % (lab, lit_text(v))
            for ast, q in ((ast1, q1), (ast2, q2)):
                cid += 1
                cases.append({"cid": cid, "kind": "idx", "query": q, "meta": {"ast": ast, "indexed": indexed}})
    return cases, cid


def index_sessions(tier, seed):
    rng = random.Random(seed)
    sessions = []
    n_hist = 6 if tier == "quick" else 24
    for h in range(n_hist):
        steps = []
        n_nodes = 0
        # most nodes share one favourite value (and its other numeric spelling), so that equal values sit on both
        # sides of the index creation and several nodes answer one lookup
        fav = rng.choice([[1, 1, 1.0], [2, 2, 2], ["a", "a", "a"], [True, True, 1]])

        def val():
            return rng.choice(fav) if rng.random() < 0.7 else rng.choice(IDX_VALUES)
        index_at = rng.randint(0, 5)
        index_spec = rng.choice([("L1", "p"), ("L1", "p"), ("L2", "p")])
        for stp in range(rng.randint(8, 12)):
            if stp == index_at:
                steps.append(("admin", "#index %s %s" % index_spec))
            c = rng.choice(["create", "create", "create", "update", "update", "remprop", "addlabel", "remlabel", "delete",
                            "compact", "reopen", "byvalue"])
            if n_nodes == 0:
                c = "create"
            if c == "create":
                labs = rng.choice([":L1", ":L1", ":L2", ":L1:L2", ":L2:L1"])
                props = {}
                if rng.random() < 0.85:
                    props["p"] = val()
                steps.append(("write", "CREATE (%s%s)" % (labs, " {p: %s}" % lit_text(props["p"]) if props else ""),
                              labs.split(":")[1]))
                n_nodes += 1
            elif c == "update":
                steps.append(("write", "MATCH (n) WHERE id(n) = %d SET n.p = %s" % (rng.randrange(n_nodes), lit_text(val()))))
            elif c == "byvalue":
                steps.append(("write", "MATCH (n:L1) WHERE n.p = %s SET n.p = %s" % (lit_text(val()), lit_text(val()))))
            elif c == "remprop":
                steps.append(("write", "MATCH (n) WHERE id(n) = %d REMOVE n.p" % rng.randrange(n_nodes)))
            elif c == "addlabel":
                steps.append(("write", "MATCH (n) WHERE id(n) = %d SET n:%s" % (rng.randrange(n_nodes), rng.choice(["L1", "L2"]))))
            elif c == "remlabel":
                steps.append(("write", "MATCH (n) WHERE id(n) = %d REMOVE n:%s" % (rng.randrange(n_nodes), rng.choice(["L1", "L2"]))))
            elif c == "delete":
                steps.append(("write", "MATCH (n) WHERE id(n) = %d DETACH DELETE n" % rng.randrange(n_nodes)))
            elif c == "compact":
                steps.append(("admin", "#compact"))
            else:
                steps.append(("admin", rng.choice(["#reopen", "#close-reopen"])))
        if h % 3 == 1:
            # equal values created after the index, then one of the older duplicates changes
            v = rng.choice([1, 2, "a", True])
            k = rng.randint(2, 4)
            steps = [("admin", "#index L1 p")]
            steps += [("write", "CREATE (:L1 {p: %s})" % lit_text(v), "L1") for _ in range(k)]
            victim = rng.randrange(k - 1)
            steps.append(("write", rng.choice(["MATCH (n) WHERE id(n) = %d SET n.p = %s" % (victim, lit_text(rng.choice([x for x in IDX_VALUES if x != v]))),
                                               "MATCH (n) WHERE id(n) = %d REMOVE n.p" % victim,
                                               "MATCH (n) WHERE id(n) = %d DETACH DELETE n" % victim])))
            if rng.random() < 0.5:
                steps.append(("admin", rng.choice(["#compact", "#reopen"])))
            steps.append(("write", "CREATE (:L1 {p: %s})" % lit_text(v), "L1"))
            steps.append(("write", "MATCH (n) WHERE id(n) = %d SET n.p = %s" % (rng.randrange(k), lit_text(v))))
        for indexed in (True, False):
            cases, cid = [], 0
            for step in steps:
                mode, q = step[0], step[1]
                first_label = step[2] if len(step) > 2 else ""
                if q.startswith("#index") and not indexed:
                    continue
                cid += 1
                cases.append({"cid": cid, "kind": "admin" if mode == "admin" else "write", "mode": mode, "query": q,
                              "dump": True, "meta": {"indexed": indexed, "index_op": q.startswith("#index"), "first_label": first_label}})
                lk, cid = lookup_cases(cid, indexed)
                cases += lk
            sessions.append({"id": "idx/%d%s" % (h, "i" if indexed else "n"), "setup": [], "dump": True, "cases": cases})
    return sessions


# ----------------------------------------------------------------------------- C33: limits
LIM_GRAPH = ["UNWIND range(1, 6) AS i CREATE (:N {v: i})",
             "MATCH (a:N), (b:N) WHERE a.v < b.v AND (b.v - a.v) <= 2 CREATE (a)-[:E]->(b)"]
LIM_QUERIES = [
    ("UNWIND range(1, $n) AS a UNWIND range(1, $m) AS b RETURN a, b", {"n": 40, "m": 30}),
    ("UNWIND range(1, $n) AS a UNWIND range(1, $m) AS b RETURN count(*) AS c", {"n": 200, "m": 100}),
    ("UNWIND range(1, $n) AS x RETURN collect(x) AS l", {"n": 300}),
    ("UNWIND range(1, $n) AS x RETURN x % 10 AS k, count(*) AS c, collect(x) AS l", {"n": 400}),
    ("UNWIND range(1, $n) AS x RETURN x ORDER BY x DESC LIMIT 5", {"n": 2000}),
    ("UNWIND range(1, $n) AS x WITH x WHERE x % 7 = 0 RETURN count(x) AS c", {"n": 3000}),
    ("MATCH (a), (b), (c) RETURN count(*) AS c", {}),
    ("MATCH (a)-[*1..4]->(b) RETURN count(*) AS c", {}),
    ("MATCH (a)-[*1..3]->(b) RETURN id(a) AS a, id(b) AS b", {}),
    ("MATCH (a:N) OPTIONAL MATCH (a)-[:E]->(b) RETURN a.v AS a, collect(b.v) AS bs", {}),
    ("MATCH (a:N), (b:N) WHERE a.v < b.v RETURN a.v AS a, b.v AS b ORDER BY a, b", {}),
    ("MATCH (a:N) WITH collect(a.v) AS vs UNWIND vs AS x UNWIND vs AS y RETURN DISTINCT x + y AS s", {}),
    ("UNWIND range(1, $n) AS x RETURN DISTINCT x % 50 AS k", {"n": 1500}),
    ("UNWIND range(1, $n) AS x RETURN sum(x) AS s, min(x) AS lo, max(x) AS hi", {"n": 5000}),
    # many distinct rows behind small source collections: only the operator's own buffer can hit the limit
    ("UNWIND range(1, 8) AS a UNWIND range(1, 8) AS b RETURN DISTINCT a, b", {}),
    ("MATCH (a:N), (b:N) RETURN DISTINCT a.v AS x, b.v AS y", {}),
    ("UNWIND range(1, 8) AS a RETURN a UNION UNWIND range(9, 16) AS a RETURN a", {}),
    ("UNWIND range(1, 8) AS a UNWIND range(1, 8) AS b WITH DISTINCT a, b RETURN count(*) AS c, sum(a) AS s", {}),
    ("UNWIND range(1, 8) AS a UNWIND range(1, 8) AS b RETURN a, b ORDER BY b, a", {}),
    ("UNWIND range(1, 8) AS a UNWIND range(1, 8) AS b RETURN a, collect(b) AS bs", {}),
    # SKIP / LIMIT tails: rows (and an error among them) discarded by the slice must not turn a failing run into a short answer
    ("UNWIND range(1, 50) AS x RETURN x SKIP 10", {}),
    ("UNWIND range(1, 50) AS x RETURN x SKIP 45", {}),
    ("UNWIND range(1, 60) AS x RETURN x SKIP 20 LIMIT 10", {}),
    ("UNWIND range(1, 40) AS x WITH x SKIP 12 RETURN count(x) AS c, sum(x) AS s", {}),
    ("UNWIND range(1, 8) AS a UNWIND range(1, 8) AS b RETURN a, b ORDER BY a, b SKIP 30", {}),
    ("MATCH (a:N), (b:N) RETURN a.v AS x, b.v AS y SKIP 7", {}),
]


def limit_sessions(tier, seed):
    rng = random.Random(seed)
    cases = []
    reps = 1 if tier == "quick" else 3
    cid = 0
    for rep in range(reps):
        for q, params in LIM_QUERIES:
            opts = []
            for _ in range(4):
                opts.append({"max_intermediate_rows": rng.choice([1, 10, 100, 1000, 100000, 500000]),
                             "max_collection_items": rng.choice([1, 5, 10, 20, 50, 5000, 200000]),
                             "max_apply_rows_per_outer": rng.choice([1, 10, 1000, 200000]),
                             "soft_timeout_ms": rng.choice([0, 5000, 5000, 5000])})
            opts.append({"soft_timeout_ms": 1})
            opts.append({"max_collection_items": rng.choice([10, 20, 30])})
            opts.append({"max_intermediate_rows": 5})
            p = dict(params)
            if rep and "n" in p:
                p["n"] = max(1, int(p["n"] * rng.choice([0.1, 0.5, 1, 2])))
            cid += 1
            cases.append({"cid": cid, "kind": "lim", "query": q, "params": p, "options_list": opts,
                          "options": {"soft_timeout_ms": 60000},
                          "meta": {"time_slack_ms": 1500, "count_slack": 1}})
    return [{"id": "lim", "setup": LIM_GRAPH, "cases": cases}]


# ----------------------------------------------------------------------------- C12: update statements
def cps(s):
    return [ord(c) for c in s]


class UGen(Gen):
    """update statements: a read prefix from Gen followed by update clauses"""

    def scalar(self, depth=0):
        # identities of nodes created by the statement itself are allocation details the reference
        # does not predict, so values written by updates never depend on id()
        for _ in range(20):
            e = Gen.scalar(self, depth)
            if "id(" not in e["text"]:
                return e
        return lit(1)

    def kv_list(self, keys, allow_null=True):
        kvs, txt = [], []
        for k in keys:
            if self.rng.random() < 0.6 or not self.scope:
                v = self.rng.choice([1, 2, "a", True, 1.5] + ([None] if allow_null else []))
                e = lit(v)
            else:
                e = self.scalar()
            kvs.append([k, e["ast"]])
            txt.append("%s: %s" % (k, e["text"]))
        return kvs, "{" + ", ".join(txt) + "}"

    def create_clause(self):
        r = self.rng
        nodes, rels, txt = [], [], ""
        hops = r.choice([0, 0, 1, 1, 2])
        bound = [v for v, k in self.scope.items() if k == "node"]
        newvars = []
        for i in range(hops + 1):
            if bound and r.random() < 0.4 and hops > 0:
                v = r.choice(bound)
                nodes.append({"v": v, "labels": [], "props": []})
                txt += "(%s)" % v
            else:
                v = self.fresh("c")
                labels = r.choice([[], ["A"], ["B"], ["A", "B"]])
                kvs, ktxt = self.kv_list(r.sample(["p", "q"], r.randint(0, 2)))
                nodes.append({"v": v, "labels": labels, "props": kvs})
                txt += "(%s%s%s)" % (v, "".join(":" + l for l in labels), (" " + ktxt) if kvs else "")
                newvars.append(v)
            if i < hops:
                t = r.choice(["R", "S"])
                d = r.choice(["out", "in"])
                rv = self.fresh("e") if r.random() < 0.3 else ""
                kvs, ktxt = self.kv_list(["w"] if r.random() < 0.4 else [])
                rels.append({"v": rv, "types": [t], "tcps": [cps(t)], "dir": d, "props": kvs, "lo": 1, "hi": 1})
                inner = "%s:%s%s" % (rv, t, (" " + ktxt) if kvs else "")
                txt += ("-[%s]->" % inner) if d == "out" else ("<-[%s]-" % inner)
        for v in newvars:
            self.scope[v] = "node"
        return {"t": "create", "pats": [{"nodes": nodes, "rels": rels}]}, "CREATE " + txt

    def set_items(self, allow_labels=True):
        r = self.rng
        ents = [(v, k) for v, k in self.scope.items() if k in ("node", "rel")]
        items, txt = [], []
        for _ in range(r.randint(1, 2)):
            v, kind = r.choice(ents)
            c = r.choice(["prop", "prop", "prop", "map", "label"] if kind == "node" and allow_labels else ["prop", "prop", "map"])
            if c == "prop":
                key = r.choice(["p", "q"] if kind == "node" else ["w"])
                e = self.scalar() if r.random() < 0.5 else lit(r.choice([1, 2, "a", None, True, 1.5]))
                if r.random() < 0.15:
                    nodes = [x for x, kk in self.scope.items() if kk == "node"]
                    if nodes:
                        # q holds integers only (or is absent): integer arithmetic with null propagation
                        n = r.choice(nodes)
                        e = {"ast": ["arith", "add", ["prop", ["var", n], "q"], ["lit", tv_of(1)]], "text": "%s.q + 1" % n}
                items.append({"k": "prop", "var": v, "key": key, "e": e["ast"]})
                txt.append("%s.%s = %s" % (v, key, e["text"]))
            elif c == "map":
                merge = r.random() < 0.5
                kvs, ktxt = self.kv_list(r.sample(["p", "q", "z"], r.randint(0, 2)) if kind == "node" else ["w"])
                items.append({"k": "map", "var": v, "kvs": kvs, "merge": merge})
                txt.append("%s %s %s" % (v, "+=" if merge else "=", ktxt))
            else:
                labels = r.sample(["A", "B", "C"], r.randint(1, 2))
                items.append({"k": "label", "var": v, "labels": labels})
                txt.append("%s%s" % (v, "".join(":" + l for l in labels)))
        return items, ", ".join(txt)

    def remove_items(self):
        r = self.rng
        ents = [(v, k) for v, k in self.scope.items() if k in ("node", "rel")]
        items, txt = [], []
        for _ in range(r.randint(1, 2)):
            v, kind = r.choice(ents)
            if kind == "node" and r.random() < 0.4:
                labels = [r.choice(["A", "B"])]
                items.append({"k": "remlabel", "var": v, "labels": labels})
                txt.append("%s:%s" % (v, labels[0]))
            else:
                key = r.choice(["p", "q"] if kind == "node" else ["w"])
                items.append({"k": "remprop", "var": v, "key": key})
                txt.append("%s.%s" % (v, key))
        return items, ", ".join(txt)

    def merge_clause(self):
        r = self.rng
        bound = [v for v, k in self.scope.items() if k == "node"]
        if len(bound) >= 2 and r.random() < 0.5:
            a, b = r.sample(bound, 2)
            t = r.choice(["R", "S", "T"])
            rv = self.fresh("m")
            mp = {"nodes": [{"v": a, "labels": [], "props": []}, {"v": b, "labels": [], "props": []}],
                  "rels": [{"v": rv, "types": [t], "dir": "out", "lo": 1, "hi": 1}]}
            cp = {"nodes": mp["nodes"], "rels": [{"v": rv, "types": [t], "tcps": [cps(t)], "dir": "out", "props": [], "lo": 1, "hi": 1}]}
            txt = "MERGE (%s)-[%s:%s]->(%s)" % (a, rv, t, b)
            self.scope[rv] = "rel"
            var = rv
        else:
            v = self.fresh("m")
            labels = [r.choice(["A", "B", "C"])]
            val = r.choice([1, 2, "a"])
            key = r.choice(["p", "q"])
            props = [[key, ["lit", tv_of(val)]]]
            mp = {"nodes": [{"v": v, "labels": labels, "props": props}], "rels": []}
            cp = mp
            txt = "MERGE (%s:%s {%s: %s})" % (v, labels[0], key, lit_text(val))
            self.scope[v] = "node"
            var = v
        oncreate, onmatch = [], []
        if r.random() < 0.6:
            k = "z" if var.startswith("m") and self.scope[var] == "node" else "w"
            oncreate = [{"k": "prop", "var": var, "key": k, "e": ["lit", tv_of(1)]}]
            txt += " ON CREATE SET %s.%s = 1" % (var, k)
        if r.random() < 0.6:
            k = "y" if self.scope[var] == "node" else "u"
            onmatch = [{"k": "prop", "var": var, "key": k, "e": ["lit", tv_of(2)]}]
            txt += " ON MATCH SET %s.%s = 2" % (var, k)
        return {"t": "merge", "pat": cp, "mpat": mp, "oncreate": oncreate, "onmatch": onmatch}, txt

    def statement(self):
        r = self.rng
        parts, texts = [], []
        shape = r.choice(["create", "create", "match-set", "match-set", "match-remove", "match-delete", "match-create",
                          "merge", "merge", "match-merge", "unwind-create", "opt-set"])
        if shape in ("match-set", "match-remove", "match-delete", "match-create", "match-merge"):
            p, t = self.match(False)
            parts.append(p)
            texts.append(t)
        elif shape == "unwind-create":
            p, t = self.unwind()
            parts.append(p)
            texts.append(t)
        elif shape == "opt-set":
            p, t = self.match(False)
            parts.append(p)
            texts.append(t)
            p, t = self.match(True)
            parts.append(p)
            texts.append(t)
        ents = [(v, k) for v, k in self.scope.items() if k in ("node", "rel")]
        ups, utexts = [], []
        if shape in ("create", "unwind-create", "match-create"):
            c, t = self.create_clause()
            ups.append(c)
            utexts.append(t)
            if r.random() < 0.3:
                items, t = self.set_items()
                ups.append({"t": "set", "items": items})
                utexts.append("SET " + t)
        elif shape in ("match-set", "opt-set") and ents:
            items, t = self.set_items()
            ups.append({"t": "set", "items": items})
            utexts.append("SET " + t)
        elif shape == "match-remove" and ents:
            items, t = self.remove_items()
            ups.append({"t": "remove", "items": items})
            utexts.append("REMOVE " + t)
        elif shape == "match-delete" and ents:
            vs = [v for v, _ in r.sample(ents, min(len(ents), r.randint(1, 2)))]
            detach = r.random() < 0.6
            ups.append({"t": "delete", "detach": detach, "vars": vs})
            utexts.append(("DETACH " if detach else "") + "DELETE " + ", ".join(vs))
        else:
            c, t = self.merge_clause()
            ups.append(c)
            utexts.append(t)
        if not ups:
            c, t = self.create_clause()
            ups.append(c)
            utexts.append(t)
        return {"parts": parts, "updates": ups}, " ".join(texts + utexts)


def update_sessions(tier, seed):
    rng = random.Random(seed)
    n_sess = 10 if tier == "quick" else 60
    per = 14 if tier == "quick" else 20
    sessions = []
    for g in range(n_sess):
        setup = gen_graph(rng, "plain")
        cases = []
        cid = 0
        for c in range(per):
            ast, text = UGen(rng).statement()
            cid += 1
            cases.append({"cid": cid, "kind": "upd", "mode": "write", "query": text, "dump": True, "meta": {"ast": ast, "rep": 1}})
            if ast["updates"][-1]["t"] == "merge":     # repeating a MERGE whose pattern now matches creates nothing
                cid += 1
                cases.append({"cid": cid, "kind": "upd", "mode": "write", "query": text, "dump": True, "meta": {"ast": ast, "rep": 2}})
        sessions.append({"id": "upd/%d" % g, "setup": setup, "dump": True, "cases": cases})
    sessions.append(merge_rel_session())
    return sessions


def merge_rel_session():
    """MERGE of a relationship with an inline property map against stored relationships that lack the key, have another
    value, or have it (each statement twice: the second run must create nothing)"""
    setup = ["CREATE (a:A {p: 1}), (b:B {p: 2}), (c:C {p: 3}), (a)-[:T]->(b), (a)-[:U {j: 5}]->(b), (b)-[:T {k: 1}]->(c)"]

    def case(x, xl, y, yl, t, key, val, oc=False, om=False):
        mp_nodes = [{"v": "x", "labels": [], "props": []}, {"v": "y", "labels": [], "props": []}]
        props = [[key, ["lit", tv_of(val)]]]
        mp = {"nodes": mp_nodes, "rels": [{"v": "m", "types": [t], "dir": "out", "lo": 1, "hi": 1, "mprops": props}]}
        cp = {"nodes": mp_nodes, "rels": [{"v": "m", "types": [t], "tcps": [cps(t)], "dir": "out", "props": props, "lo": 1, "hi": 1}]}
        oncreate = [{"k": "prop", "var": "m", "key": "w", "e": ["lit", tv_of(1)]}] if oc else []
        onmatch = [{"k": "prop", "var": "m", "key": "u", "e": ["lit", tv_of(2)]}] if om else []
        parts = [{"t": "match", "opt": False, "pats": [{"nodes": [{"v": "x", "labels": [xl], "props": []}], "rels": []},
                                                        {"nodes": [{"v": "y", "labels": [yl], "props": []}], "rels": []}], "where": ["none"]}]
        ast = {"parts": parts, "updates": [{"t": "merge", "pat": cp, "mpat": mp, "oncreate": oncreate, "onmatch": onmatch}]}
        q = "MATCH (x:%s), (y:%s) MERGE (x)-[m:%s {%s: %s}]->(y)" % (xl, yl, t, key, lit_text(val))
        if oc:
            q += " ON CREATE SET m.w = 1"
        if om:
            q += " ON MATCH SET m.u = 2"
        return ast, q
    specs = [("x", "A", "y", "C", "T", "k", 1, False, False),      # no relationship at all: creates
             ("x", "B", "y", "C", "T", "k", 1, False, True),       # stored one has k = 1: matches
             ("x", "B", "y", "C", "T", "k", 2, True, False),       # stored one has another value: creates
             ("x", "A", "y", "B", "U", "k", 1, True, True),        # stored U lacks k: creates
             ("x", "A", "y", "B", "U", "j", 5, True, True),        # stored U has j = 5: matches
             ("x", "A", "y", "B", "T", "k", 1, True, True)]        # stored T has no properties: creates
    cases, cid = [], 0
    for sp in specs:
        ast, q = case(*sp)
        for rep in (1, 2):
            cid += 1
            cases.append({"cid": cid, "kind": "upd", "mode": "write", "query": q, "dump": True, "meta": {"ast": ast, "rep": rep}})
    return {"id": "upd/merge-rel-props", "setup": setup, "dump": True, "cases": cases}


# ----------------------------------------------------------------------------- C13 / C14 / C24: C API scripts
def _props_ast(props):
    return [[k, ["lit", tv_of(v)]] for k, v in props.items()]


def _props_txt(props):
    return (" {" + ", ".join("%s: %s" % (k, lit_text(v)) for k, v in props.items()) + "}") if props else ""


def npat(v, labels=(), props=None):
    props = props or {}
    return ({"v": v, "labels": list(labels), "props": _props_ast(props)},
            "(%s%s%s)" % (v, "".join(":" + l for l in labels), _props_txt(props)))


def chain(nodes, rels):
    """nodes: [npat..]; rels: [(var, type, dir)]; usable for MATCH (types list) and CREATE (tcps)"""
    txt = nodes[0][1]
    rs = []
    for (rv, t, d), n in zip(rels, nodes[1:]):
        inner = "%s:%s" % (rv, t)
        txt += ("-[%s]->" % inner if d == "out" else "<-[%s]-" % inner) + n[1]
        rs.append({"v": rv, "types": [t], "tcps": [cps(t)], "dir": d, "props": [], "lo": 1, "hi": 1})
    return {"nodes": [n[0] for n in nodes], "rels": rs}, txt


def stmt(parts=(), updates=()):
    ast = {"parts": [p[0] for p in parts], "updates": [u[0] for u in updates]}
    return ast, " ".join([p[1] for p in parts] + [u[1] for u in updates])


def m_match(pattern, where=None):
    w = ["none"] if where is None else where[0]
    return ({"t": "match", "opt": False, "pats": [pattern[0]], "where": w},
            "MATCH " + pattern[1] + ("" if where is None else " WHERE " + where[1]))


def u_create(pattern):
    return {"t": "create", "pats": [pattern[0]]}, "CREATE " + pattern[1]


def u_set(var, key, val):
    return ({"t": "set", "items": [{"k": "prop", "var": var, "key": key, "e": ["lit", tv_of(val)]}]},
            "SET %s.%s = %s" % (var, key, lit_text(val)))


def u_delete(vs, detach=False):
    return {"t": "delete", "detach": detach, "vars": list(vs)}, ("DETACH " if detach else "") + "DELETE " + ", ".join(vs)


def u_merge_node(v, label, key, val, oncreate=None, onmatch=None):
    p = npat(v, [label], {key: val})
    pat = {"nodes": [p[0]], "rels": []}
    txt = "MERGE " + p[1]
    oc, om = [], []
    if oncreate:
        oc = [{"k": "prop", "var": v, "key": oncreate[0], "e": ["lit", tv_of(oncreate[1])]}]
        txt += " ON CREATE SET %s.%s = %s" % (v, oncreate[0], lit_text(oncreate[1]))
    if onmatch:
        om = [{"k": "prop", "var": v, "key": onmatch[0], "e": ["lit", tv_of(onmatch[1])]}]
        txt += " ON MATCH SET %s.%s = %s" % (v, onmatch[0], lit_text(onmatch[1]))
    return {"t": "merge", "pat": pat, "mpat": pat, "oncreate": oc, "onmatch": om}, txt


def eq_pred(var, key, val):
    return ["cmp", "=", ["prop", ["var", var], key], ["lit", tv_of(val)]], "%s.%s = %s" % (var, key, lit_text(val))


def S(ast_text, noref=False):
    ast, text = ast_text
    return {"query": text, "meta": {"ast": ast, "noref": noref}}


def RAW(text):
    return {"query": text, "meta": {"ast": {"parts": [], "updates": []}, "noref": True}}


CAPI_SETUP = ["CREATE (h:Hub {p: 1})-[:L]->(s:Spoke {p: 2}), (h)-[:L]->(:Spoke {p: 3}), (:Lone {p: 4})"]


def capi_sessions(tier, seed):
    rng = random.Random(seed)
    fail_raw = [
        "UNWIND ['true', 'false', 1, 'true'] AS x CREATE (:T {v: toBoolean(x)})",
        "UNWIND [[1], [2], {a: 1}] AS x CREATE (:T {v: x[0]})",
        "CREATE (a:T {k: 1}) WITH a MATCH (h:Hub) DELETE h",
        "MATCH (s:Spoke) CREATE (:T {v: toInteger(s.p = 2)})",
        "CREATE (:T {v: 1}) CREATE (:T {v: toBoolean(1)})",
        "MATCH (s:Spoke) SET s.p = toBoolean(s.p)",
        "CREATE (a:T) SET a.x = 1 WITH a UNWIND [1, 0] AS d MATCH (h:Hub) WHERE d = 0 DELETE h",
        "THIS IS NOT CYPHER (",
        "MATCH (l:Lone) REMOVE l.p WITH l MATCH (h:Hub) DELETE h",
        "MATCH (s:Spoke) SET s.p = null WITH s MATCH (h:Hub) DELETE h",
        "MATCH (h:Hub)-[r:L]->(s:Spoke) SET s += {p: null, extra: 1} DELETE h",
        "MATCH (s:Spoke) REMOVE s:Spoke WITH s MATCH (h:Hub) DELETE h",
        "MATCH (h:Hub)-[r:L]->(s:Spoke) DELETE r WITH h CREATE (:T {v: toBoolean(1)})",
        # resource-limit errors (the C API runs with its default limits) after earlier rows / clauses have written
        "UNWIND [1, 2, 3000000] AS k CREATE (n:T {k: k}) WITH n, k SET n.width = size(range(1, k))",
        "MATCH (s:Spoke) SET s.touched = true CREATE (:T {k: 7}) RETURN size(range(1, 3000000)) AS n",
        "CREATE (:T {k: 8}) WITH 1 AS one UNWIND range(1, 3000000) AS i RETURN count(i) AS n",
    ]
    ok_a = S(stmt(updates=[u_create(chain([npat("a", ["Ok"], {"n": 1})], []))]))
    ok_b = S(stmt(updates=[u_create(chain([npat("a", ["Ok"], {"n": 2}), npat("b", ["Ok2"])], [("", "K", "out")]))]))
    ok_set = S(stmt(parts=[m_match(chain([npat("l", ["Lone"])], []))], updates=[u_set("l", "touched", True)]))
    del_hub = S(stmt(parts=[m_match(chain([npat("h", ["Hub"])], []))], updates=[u_delete(["h"])]))        # must fail: connected
    # --- C13
    c13 = []
    cid = 0
    for k, f in enumerate(fail_raw):
        cid += 1
        c13.append({"cid": cid, "kind": "upd", "api": "exec", "query": f, "meta": {"ast": {"parts": [], "updates": []}, "noref": True, "prop": "C13"}})
        # whatever the failed statement left behind in the engine would ride along with the next commit
        cid += 1
        okm = S(stmt(updates=[u_create(chain([npat("m", ["Marker"], {"i": k})], []))]))
        c13.append(dict(cid=cid, kind="upd", api="exec", query=okm["query"], meta=dict(okm["meta"], prop="C13")))
    cid += 1
    c13.append(dict(cid=cid, kind="upd", api="exec", query=del_hub["query"], meta=dict(del_hub["meta"], prop="C13")))
    for f in fail_raw:
        for end in ("commit", "rollback"):
            cid += 1
            stmts = [ok_a, RAW(f), ok_set] if rng.random() < 0.5 else [RAW(f), ok_b]
            c13.append({"cid": cid, "kind": "txn", "api": "txn", "stmts": stmts, "end": end, "query": " ; ".join(s["query"] for s in stmts),
                        "meta": {"prop": "C13"}})
    cid += 1
    c13.append({"cid": cid, "kind": "txn", "api": "txn", "stmts": [ok_a, del_hub, ok_b], "end": "commit",
                "query": "ok ; delete connected hub ; ok", "meta": {"prop": "C13"}})
    # --- C24
    X = lambda props=None: npat("x", ["X"], props or {})
    scripts24 = [
        [S(stmt(updates=[u_create(chain([npat("x", ["X"], {"k": 1})], []))])),
         S(stmt(parts=[m_match(chain([npat("n", ["X"])], []))], updates=[u_set("n", "v", 2)]))],
        [S(stmt(updates=[u_create(chain([npat("x", ["X"], {"k": 1})], []))])),
         S(stmt(parts=[m_match(chain([npat("n", ["X"])], []))], updates=[u_create(chain([npat("n"), npat("y", ["Y"])], [("", "R", "out")]))]))],
        [S(stmt(updates=[u_create(chain([npat("x", ["X"], {"k": 1})], []))])),
         S(stmt(updates=[u_merge_node("n", "X", "k", 1, oncreate=("c", 1), onmatch=("m", 1))]))],
        [S(stmt(updates=[u_create(chain([npat("a", ["X"]), npat("b", ["Y"])], [("", "R", "out")]))])),
         S(stmt(parts=[m_match(chain([npat("a", ["X"]), npat("b", ["Y"])], [("r", "R", "out")]))], updates=[u_delete(["r"])]))],
        [S(stmt(parts=[m_match(chain([npat("h", ["Hub"])], []))], updates=[u_set("h", "p", 5)])),
         S(stmt(parts=[m_match(chain([npat("h", ["Hub"])], []), )], updates=[u_set("h", "q", 6)])),
         S(stmt(parts=[m_match(chain([npat("h", ["Hub"])], []), where=eq_pred("h", "p", 5))], updates=[u_set("h", "seen", True)]))],
        [S(stmt(updates=[u_create(chain([npat("x", ["X"], {"k": 1})], []))])),
         S(stmt(parts=[m_match(chain([npat("n", ["X"])], []))], updates=[u_delete(["n"], detach=True)])),
         S(stmt(updates=[u_merge_node("n", "X", "k", 1, oncreate=("again", True))]))],
    ]
    # several statements of one transaction writing the same committed entity (no read-your-writes needed)
    hub = lambda: m_match(chain([npat("h", ["Hub"])], []))
    rel = lambda: m_match(chain([npat("h", ["Hub"]), npat("s", ["Spoke"], {"p": 2})], [("r", "L", "out")]))

    def u_remove(var, key):
        return {"t": "remove", "items": [{"k": "remprop", "var": var, "key": key}]}, "REMOVE %s.%s" % (var, key)

    def u_set_label(var, label):
        return {"t": "set", "items": [{"k": "label", "var": var, "labels": [label]}]}, "SET %s:%s" % (var, label)
    scripts24 += [
        [S(stmt(parts=[hub()], updates=[u_set("h", "v", 1)])), S(stmt(parts=[hub()], updates=[u_set("h", "v", 2)]))],
        [S(stmt(parts=[hub()], updates=[u_set("h", "v", 1)])), S(stmt(parts=[hub()], updates=[u_set("h", "w", 2)])),
         S(stmt(parts=[hub()], updates=[u_set("h", "v", 3)]))],
        [S(stmt(parts=[hub()], updates=[u_set("h", "p", 9)])), S(stmt(parts=[hub()], updates=[u_remove("h", "p")]))],
        [S(stmt(parts=[hub()], updates=[u_remove("h", "p")])), S(stmt(parts=[hub()], updates=[u_set("h", "p", 9)]))],
        [S(stmt(parts=[rel()], updates=[u_set("r", "w", 1)])), S(stmt(parts=[rel()], updates=[u_set("r", "w", 2)]))],
        [S(stmt(parts=[hub()], updates=[u_set_label("h", "Extra")])), S(stmt(parts=[hub()], updates=[u_set("h", "v", 1)])),
         S(stmt(parts=[hub()], updates=[u_create(chain([npat("h"), npat("z", ["New"])], [("", "L", "out")]))]))],
        [S(stmt(parts=[hub()], updates=[u_set("h", "v", None)])), S(stmt(parts=[hub()], updates=[u_set("h", "v", "again")]))],
    ]
    # a node created WITHOUT a label earlier in the transaction, met again by an unlabelled full scan
    anyn = lambda: m_match(chain([npat("n")], []))
    scripts24 += [
        [S(stmt(updates=[u_create(chain([npat("x", [], {"k": 1})], []))])), S(stmt(parts=[anyn()], updates=[u_set("n", "seen", True)]))],
        [S(stmt(updates=[u_create(chain([npat("x", [], {"k": 1})], []))])), S(stmt(parts=[anyn()], updates=[u_set_label("n", "Seen")]))],
        [S(stmt(updates=[u_create(chain([npat("x", [], {"k": 1}), npat("y", [])], [("", "R", "out")]))])),
         S(stmt(parts=[anyn()], updates=[u_set("n", "seen", 1)])), S(stmt(parts=[anyn()], updates=[u_set("n", "again", 2)]))],
    ]
    c24 = []
    for i, sc in enumerate(scripts24):
        for end in ("commit", "rollback"):
            c24.append({"cid": len(c24) + 1, "kind": "txn", "api": "txn", "stmts": sc, "end": end,
                        "query": " ; ".join(s["query"] for s in sc), "meta": {"prop": "C24"}})
    # --- C14
    mk = S(stmt(updates=[u_create(chain([npat("a", ["N1"]), npat("b", ["N2"])], [("", "R", "out")]))]))
    del_a = S(stmt(parts=[m_match(chain([npat("a", ["N1"])], []))], updates=[u_delete(["a"])]))
    del_b = S(stmt(parts=[m_match(chain([npat("b", ["N2"])], []))], updates=[u_delete(["b"])]))
    ddel_a = S(stmt(parts=[m_match(chain([npat("a", ["N1"])], []))], updates=[u_delete(["a"], detach=True)]))
    # a relationship created earlier in the same statement must block a plain DELETE of its endpoint
    cd1 = S(stmt(updates=[u_create(chain([npat("a", ["N3"]), npat("b", ["N4"])], [("", "R", "out")])), u_delete(["a"])]))
    cd2 = S(stmt(parts=[m_match(chain([npat("h", ["Hub"])], []))],
                 updates=[u_create(chain([npat("h"), npat("t", ["Tmp"])], [("", "R", "out")])), u_delete(["t"])]))
    cd3 = S(stmt(updates=[u_create(chain([npat("a", ["N5"]), npat("b", ["N6"])], [("e", "R", "out")])), u_delete(["e", "a"])]))   # fine: e goes too
    c14 = [
        {"cid": 1, "kind": "txn", "api": "txn", "stmts": [mk, del_a], "end": "commit", "query": "create (a)-[:R]->(b) ; delete a", "meta": {"prop": "C14"}},
        {"cid": 2, "kind": "txn", "api": "txn", "stmts": [mk, del_b], "end": "commit", "query": "create (a)-[:R]->(b) ; delete b", "meta": {"prop": "C14"}},
        {"cid": 3, "kind": "txn", "api": "txn", "stmts": [mk, ddel_a], "end": "commit", "query": "create ; detach delete a", "meta": {"prop": "C14"}},
        dict(cid=4, kind="upd", api="exec", query=mk["query"], meta=dict(mk["meta"], prop="C14")),
        dict(cid=5, kind="upd", api="exec", query=del_a["query"], meta=dict(del_a["meta"], prop="C14")),
        dict(cid=6, kind="upd", api="exec", query=del_b["query"], meta=dict(del_b["meta"], prop="C14")),
        dict(cid=7, kind="upd", api="exec", query=cd1["query"], meta=dict(cd1["meta"], prop="C14")),
        dict(cid=8, kind="upd", api="exec", query=cd2["query"], meta=dict(cd2["meta"], prop="C14")),
        dict(cid=10, kind="upd", api="exec", query=cd3["query"], meta=dict(cd3["meta"], prop="C14")),
        dict(cid=9, kind="upd", api="exec", query=ddel_a["query"], meta=dict(ddel_a["meta"], prop="C14")),
    ]
    return [{"id": "capi/c13", "api": "c", "setup": CAPI_SETUP, "cases": c13},
            {"id": "capi/c24", "api": "c", "setup": CAPI_SETUP, "cases": c24},
            {"id": "capi/c14", "api": "c", "setup": CAPI_SETUP, "cases": c14}]


# ----------------------------------------------------------------------------- C30: bulk load
def bulk_sessions(tier, seed):
    rng = random.Random(seed)
    n_sets = 6 if tier == "quick" else 60
    per = 10 if tier == "quick" else 25
    VALS = [1, 2, 1.5, "a", "", True, False, [1, 2], ["x"], {"int": "9223372036854775807"}, {"fl": -0.5}, "R", "A"]
    sessions = []
    for g in range(n_sets):
        flavour = ["plain", "norels", "parallel", "shared-names", "loops", "plain"][g % 6]
        n = rng.randint(1, 6)
        # names shared between labels and relationship types in one flavour
        labels = ["A", "B"] if flavour != "shared-names" else ["A", "R", "S"]
        nodes = []
        for i in range(n):
            props = {}
            for k in rng.sample(["p", "q", "s"], rng.randint(0, 3)):
                props[k] = rng.choice(VALS[:5] if k in ("p", "q") else VALS)
            nodes.append({"ext": 1000 + i * 7, "label": rng.choice(labels), "props": props})
        edges = []
        if flavour != "norels":
            for _ in range(rng.randint(1, 7)):
                a, b = rng.randrange(n), rng.randrange(n)
                if a == b and flavour != "loops":
                    continue
                props = {"w": rng.choice([1, 2, "a"])} if rng.random() < 0.5 else {}
                edges.append({"src": nodes[a]["ext"], "type": rng.choice(["R", "S"] if flavour != "shared-names" else ["R", "A"]),
                              "dst": nodes[b]["ext"], "props": props})
            if flavour == "parallel" and edges:
                # relationship properties belong to the (source, type, target) key, so a parallel
                # relationship is given the same properties
                edges.append(dict(rng.choice(edges)))
        cases_by_mode = {}
        for mode in ("bulk", "txn"):
            qrng = random.Random(seed * 131 + g)      # the same queries on both databases
            cases = []
            for c in range(per):
                ast, text = Gen(qrng).query()
                cases.append({"cid": c + 1, "kind": "bread", "query": text, "meta": {"ast": ast, "flavour": flavour, "mode": mode}})
            sessions.append({"id": "bulk/%d/%s" % (g, mode), "bulk": {"nodes": nodes, "edges": edges}, "bulk_mode": mode,
                             "setup": [], "dump": True, "cases": cases})
    return sessions


# ----------------------------------------------------------------------------- C34: C API vs Rust API
def K(k, q=None):
    return {"k": k, "q": q} if q is not None else {"k": k, "q": []}


ACCEPT_CASES = [   # (class, statement, clause tree)
    ("read", "MATCH (n) RETURN count(n) AS c", [K("match"), K("return")]),
    ("read-unwind", "UNWIND [1, 2] AS x RETURN x", [K("unwind"), K("return")]),
    ("read-optional", "MATCH (h:Hub) OPTIONAL MATCH (h)-[:L]->(s) RETURN count(s) AS c", [K("match"), K("match"), K("return")]),
    ("read-union", "RETURN 1 AS x UNION RETURN 2 AS x", [K("return"), K("union", [K("return")])]),
    ("create", "CREATE (:Acc {k: 1})", [K("create")]),
    ("match-set", "MATCH (h:Hub) SET h.acc = 1", [K("match"), K("set")]),
    ("match-remove", "MATCH (h:Hub) REMOVE h.acc", [K("match"), K("remove")]),
    ("merge", "MERGE (:Acc {k: 2})", [K("merge")]),
    ("match-delete", "MATCH (a:Acc) DETACH DELETE a", [K("match"), K("delete")]),
    ("foreach", "MATCH (h:Hub) FOREACH (x IN [1, 2] | SET h.fe = x)", [K("match"), K("foreach")]),
    ("foreach-create", "FOREACH (x IN [1] | CREATE (:Acc {k: x}))", [K("foreach")]),
    ("call-subquery-write", "MATCH (h:Hub) CALL { WITH h SET h.sq = 1 } RETURN count(*) AS c", [K("match"), K("call", [K("with"), K("set")]), K("return")]),
    ("call-subquery-create", "CALL { CREATE (:Acc {k: 3}) } RETURN 1 AS x", [K("call", [K("create")]), K("return")]),
    ("call-subquery-read", "MATCH (h:Hub) CALL { WITH h MATCH (h)-[:L]->(s) RETURN count(s) AS c } RETURN c", [K("match"), K("call", [K("with"), K("match"), K("return")]), K("return")]),
    ("union-write-second", "MATCH (h:Hub) RETURN 1 AS x UNION CREATE (:Acc {k: 4}) RETURN 1 AS x", [K("match"), K("return"), K("union", [K("create"), K("return")])]),
    ("union-write-first", "CREATE (:Acc {k: 5}) RETURN 1 AS x UNION RETURN 2 AS x", [K("create"), K("return"), K("union", [K("return")])]),
    ("nested-subquery-write", "CALL { CALL { CREATE (:Acc {k: 6}) } RETURN 1 AS y } RETURN y", [K("call", [K("call", [K("create")]), K("return")]), K("return")]),
    ("subquery-foreach", "MATCH (h:Hub) CALL { WITH h FOREACH (x IN [1] | SET h.sf = x) } RETURN 1 AS x", [K("match"), K("call", [K("with"), K("foreach")]), K("return")]),
    ("subquery-union-write", "CALL { RETURN 1 AS y UNION CREATE (:Acc {k: 7}) RETURN 2 AS y } RETURN y", [K("call", [K("return"), K("union", [K("create"), K("return")])]), K("return")]),
    ("create-return", "CREATE (a:Acc {k: 8}) RETURN a.k AS k", [K("create"), K("return")]),
    ("match-set-return", "MATCH (h:Hub) SET h.r = 1 RETURN h.r AS r", [K("match"), K("set"), K("return")]),
]
PARITY_VALUES = ["RETURN 1 AS x", "RETURN 1.0 AS x", "RETURN -0.0 AS x", "RETURN 9223372036854775807 AS x", "RETURN -9223372036854775808 AS x",
                 "RETURN 9007199254740993 AS x", "RETURN 0.1 AS x", "RETURN 1e300 AS x", "RETURN 0.0 / 0.0 AS x", "RETURN 1.0 / 0.0 AS x",
                 "RETURN -1.0 / 0.0 AS x", "RETURN 'a\\'b' AS x", "RETURN '' AS x", "RETURN null AS x", "RETURN true AS x",
                 "RETURN [1, 1.0, 'a', null, [2]] AS x", "RETURN {a: 1, b: [1.5, null], c: {d: 'x'}} AS x", "RETURN [] AS x", "RETURN {} AS x",
                 "MATCH (h:Hub) RETURN h AS x", "MATCH (h:Hub)-[r:L]->(s) RETURN r AS x, s AS y", "MATCH (h:Hub) RETURN h.p AS x, labels(h) AS l, properties(h) AS m",
                 "MATCH (n) RETURN id(n) AS i, n.p AS p ORDER BY i", "MATCH p = (h:Hub)-[:L]->(s) RETURN length(p) AS n",
                 "UNWIND [1, 2, 3] AS x RETURN x, x * 1.5 AS y, toString(x) AS s", "RETURN toBoolean(1) AS x", "RETURN 1 +", "MATCH (n) RETURN n.p + 'a' AS x",
                 "RETURN $a AS a, $b AS b, $c AS c",
                 # entities nested inside collections and paths
                 "MATCH (n:Spoke) WITH n ORDER BY n.p RETURN collect(n) AS x",
                 "MATCH (h:Hub)-[r:L]->(s) WITH h, r, s ORDER BY s.p RETURN {from: h, rel: r, to: s} AS x",
                 "MATCH p = (h:Hub)-[:L]->(s) RETURN nodes(p) AS ns, relationships(p) AS rs",
                 "MATCH p = (h:Hub)-[:L]->(s) RETURN p AS x",
                 "MATCH (h:Hub)-[r:L]->(s) RETURN [h, [r, {k: s}]] AS x",
                 "MATCH (h:Hub)-[r:L]->(s) RETURN collect(r) AS rs, collect({n: s, l: [s]}) AS ms",
                 "MATCH (h:Hub) OPTIONAL MATCH (h)-[r:Nope]->(s) RETURN [h, r, s] AS x"]


def parity_sessions(tier, seed):
    rng = random.Random(seed)
    sessions = []
    cases = [{"cid": i + 1, "kind": "accept", "api": "accept", "query": q, "meta": {"cls": cls, "tree": tree}}
             for i, (cls, q, tree) in enumerate(ACCEPT_CASES)]
    sessions.append({"id": "capi/accept", "api": "c", "setup": CAPI_SETUP, "cases": cases})
    cases = []
    for i, q in enumerate(PARITY_VALUES):
        c = {"cid": i + 1, "kind": "parity", "api": "parity", "query": q, "meta": {"src": "values"}}
        if "$a" in q:
            c["cparams"] = {"a": 1, "b": [1.5, "x", None], "c": {"k": [1, {"z": True}]}}
        cases.append(c)
    sessions.append({"id": "capi/parity-values", "api": "c", "twin": True, "setup": CAPI_SETUP, "cases": cases})
    n_graphs = 4 if tier == "quick" else 20
    for g in range(n_graphs):
        setup = gen_graph(rng, ["plain", "parallel", "loops", "plain"][g % 4])
        setup = [x for x in setup if not x.startswith("#")]
        cases = []
        for c in range(25):
            ast, text = Gen(rng).query()
            cases.append({"cid": c + 1, "kind": "parity", "api": "parity", "query": text, "meta": {"src": "generated"}})
        sessions.append({"id": "capi/parity/%d" % g, "api": "c", "twin": True, "setup": setup, "cases": cases})
    return sessions
