"""C18: growth histories with the page-ownership hook, judged by PagesTrace; Pages.tla exhaustively."""
import json
import os
import random
import shutil
import time

import vlib
from vlib import ToolError
from checks import ASSUME_COMMON, cache_dir, generic_verdict, model_run, reg


def page_scenarios(tier, seed):
    rng = random.Random(seed * 7919 + 18)
    n_sc, budget = (4, 1300) if tier == "quick" else (12, 2400)
    out = []
    # fixed shapes: the node table growing *in place* (it is the last structure in the file) across one and two page
    # boundaries, on a fresh file and after a relocation, each followed by allocations of other structures
    N = lambda n, **kw: dict({"op": "nodes", "n": n, "label": "A"}, **kw)
    C, R = {"op": "compact"}, {"op": "reopen"}
    E = lambda n: {"op": "edges", "n": n, "from": 0, "stride": 7}
    O = lambda st, *probes: dict(st, observe=True, probes=list(probes) or [1])
    out.append({"id": "inplace/fresh-one-boundary", "steps": [N(600), E(200), O(C, 1, 600), N(100), E(50), C, O(R, 1, 700)]})
    out.append({"id": "inplace/after-relocation", "steps": [N(300), E(100), C, N(800), E(300), O(C, 1, 1100), N(100), C, O(R, 1, 1200)]})
    out.append({"id": "inplace/two-boundaries", "steps": [N(100), C, N(1100), E(200), O(C, 1, 1200), {"op": "index", "label": "A", "field": "p"},
                                                          N(600), {"op": "blobs", "n": 5, "from": 0, "size": 9000}, C, O(R, 1, 1800)]})
    for k in range(n_sc):
        steps, total, since_obs = [], 0, 0
        # every scenario starts by putting other structures right behind the node table's first page
        steps.append({"op": "nodes", "n": rng.choice([5, 40, 200, 511, 512, 513]), "label": rng.choice("AB")})
        total += steps[-1]["n"]
        # crash images of the first transaction that makes the node table move: fill up to the page boundary quietly, put
        # another structure behind the table, then create the nodes that open the next page with every I/O step imaged
        fill = (512 - total % 512) - 2
        if fill > 0:
            steps.append({"op": "nodes", "n": fill, "label": "A"})
            total += fill
        steps.append({"op": "edges", "n": 40, "from": 0, "stride": 7})
        steps.append({"op": "compact"})
        steps.append({"op": "nodes", "n": 5, "label": "B", "crash": True, "observe": True, "probes": [total + 4]})
        total += 5
        indexed = False
        while total < budget:
            kind = rng.choices(["nodes", "edges", "blobs", "compact", "index", "vectors", "reopen", "checkpoint", "search"],
                               [30, 10, 10, 14, 4, 8, 6, 4, 3])[0]
            st = {"op": kind}
            if kind == "nodes":
                st.update(n=rng.choice([1, 7, 100, 300, 511, 512, 513, 700]), label=rng.choice("AB"))
                total += st["n"]
            elif kind == "edges":
                st.update(n=rng.choice([5, 60, 300]), **{"from": rng.randrange(0, 1000)}, stride=rng.choice([1, 7, 31]))
            elif kind == "blobs":
                st.update(n=rng.choice([1, 5, 20]), **{"from": rng.randrange(0, 1000)}, size=rng.choice([10, 300, 5000, 9000, 20000]))
            elif kind == "vectors":
                st.update(n=rng.choice([1, 8, 40]), **{"from": rng.randrange(0, 1000)}, dim=4)
            elif kind == "index":
                if indexed:
                    continue
                indexed = True
                st.update(label=rng.choice("AB"), field="p")
            steps.append(st)
            since_obs += 1
            if kind in ("reopen", "compact") or since_obs >= 4:
                st["observe"] = True
                st["probes"] = sorted({1, max(1, total // 2), total, rng.randrange(1, total + 1)})
                since_obs = 0
        steps.append({"op": "compact"})
        steps.append({"op": "reopen", "observe": True, "probes": [1, total]})
        steps.append({"op": "nodes", "n": 3, "label": "A", "observe": True, "probes": [total + 1]})
        out.append({"id": "grow/%d" % k, "steps": steps})
    return out


def vacuum_page_scenarios(tier, seed):
    """histories large enough for a node table of several pages (also relocated), B-trees of depth > 1, blob chains and a
    vector index, vacuumed while closed; PagesTrace compares everything read back afterwards (reported under C28)"""
    N = lambda n, **kw: dict({"op": "nodes", "n": n, "label": "A"}, **kw)
    C, R, V = {"op": "compact"}, {"op": "reopen"}, {"op": "vacuum"}
    E = lambda n: {"op": "edges", "n": n, "from": 0, "stride": 7}
    O = lambda st, *probes: dict(st, observe=True, probes=list(probes) or [1])
    B = lambda n, size: {"op": "blobs", "n": n, "from": 3, "size": size}
    VEC = lambda n: {"op": "vectors", "n": n, "from": 0, "dim": 4}
    out = [
        {"id": "vac/two-pages-no-compaction", "steps": [N(600), E(100), O(V, 1, 600), N(3), O(R, 1, 603)]},
        {"id": "vac/relocated-table", "steps": [N(300), E(50), C, N(300), E(80), O(V, 1, 600), N(3), C, O(R, 603)]},
        {"id": "vac/exactly-two-pages", "steps": [N(1024), E(200), C, O(V, 1, 1024), N(1), O(R, 1025)]},
        {"id": "vac/everything", "steps": [N(700), {"op": "index", "label": "A", "field": "p"}, E(300), B(6, 20000), VEC(60), C, N(450), VEC(30), E(100), C,
                                           O(V, 1, 700, 1150), {"op": "search"}, N(5), B(2, 9000), C, O(R, 1, 1155)]},
    ]
    if tier == "thorough":
        rng = random.Random(seed * 31 + 28)
        for k in range(8):
            steps, total = [], 0
            for _ in range(rng.randint(3, 7)):
                n = rng.choice([90, 300, 511, 513, 700])
                steps += [N(n), E(rng.choice([20, 150]))]
                total += n
                steps.append(rng.choice([C, R, B(3, rng.choice([300, 9000])), VEC(20), C]))
            steps += [O(V, 1, total), N(2), O(R, 1, total + 2)]
            out.append({"id": "vac/gen%d" % k, "steps": steps})
    return out


def pages_family(tag, scenarios, tier, seed):
    cd = cache_dir("pages-" + tag, tier, seed)
    os.makedirs(cd, exist_ok=True)
    res_p = os.path.join(cd, "result.json")
    if os.path.exists(res_p):
        return json.load(open(res_p))
    ip, tp = os.path.join(cd, "scenarios.ndjson"), os.path.join(cd, "trace.ndjson")
    vlib.write_ndjson(ip, scenarios)
    stats = vlib.nvx(["pages", "--in", ip, "--out", tp, "--scratch", os.path.join(cd, "scratch")], timeout=7200)
    shutil.rmtree(os.path.join(cd, "scratch"), ignore_errors=True)
    findings, info = vlib.tlc_trace("PagesTrace", tp, "pages-%s-%s" % (tag, tier), timeout=7200)
    ids, cur = {}, None
    for i, l in enumerate(open(tp), 1):
        if '"ev":"reset"' in l[:40]:
            cur = json.loads(l).get("id")
        ids[i] = cur
    for f in findings:
        f["id"] = ids.get(f.get("at"))
    saved = {"stats": stats, "findings": findings, "info": info}
    json.dump(saved, open(res_p, "w"))
    return saved


@reg("C18")
def c18(tier, seed, replay):
    t0 = time.time()
    vlib.build_harness()
    ok = model_run("Pages", "MC_Pages", tier, "pages", workers=8, timeout=1800)
    neg = model_run("Pages", "MC_PagesNeg_NoRelocate", tier, "pages-neg", workers=4, timeout=600, must_hold=False)
    if neg.get("violated") != "ContentOwned":
        raise ToolError("Pages sensitivity: without relocation the model must violate ContentOwned, got %r" % neg.get("violated"))
    cd = cache_dir("pages", tier, seed)
    os.makedirs(cd, exist_ok=True)
    scenarios = [json.load(open(replay))["scenario"]] if replay else page_scenarios(tier, seed)
    ip, tp = os.path.join(cd, "scenarios.ndjson"), os.path.join(cd, "trace.ndjson")
    res_p = os.path.join(cd, "result.json")
    if os.path.exists(res_p) and not replay:
        saved = json.load(open(res_p))
    else:
        vlib.write_ndjson(ip, scenarios)
        stats = vlib.nvx(["pages", "--in", ip, "--out", tp, "--scratch", os.path.join(cd, "scratch")], timeout=7200)
        shutil.rmtree(os.path.join(cd, "scratch"), ignore_errors=True)
        findings, info = vlib.tlc_trace("PagesTrace", tp, "pages-" + tier, timeout=7200)
        # scenario of a finding = the reset line before it
        ids, cur = {}, None
        relocations = 0
        for i, l in enumerate(open(tp), 1):
            if l.startswith('{"ev":"reset"') or '"ev":"reset"' in l[:40]:
                cur = json.loads(l).get("id")
            ids[i] = cur
            if '"free"' in l and '"idmap"' in l:
                relocations += sum(1 for p in json.loads(l).get("pages", []) if p[0] == "free" and p[2] == "idmap")
        for f in findings:
            f["id"] = ids.get(f.get("at"))
        selftest = {"ran": False}
        if not replay:
            # binding self-test: (a) a page write attributed to another module, (b) one node record altered
            lines = open(tp).read().splitlines()
            done = []
            for mode in ("owner", "content"):
                out = []
                hit = False
                for l in lines:
                    e = json.loads(l)
                    if not hit and mode == "owner" and e.get("ev") == "step":
                        w = [i for i, p in enumerate(e["pages"]) if p[0] == "write" and p[2] == "btree"]
                        if w:
                            e["pages"][w[0]][2] = "csr"
                            hit = True
                    if not hit and mode == "content" and e.get("ev") == "obs" and len(e["nodes"]) > 3:
                        e["nodes"][2][3] = e["nodes"][2][3] + 1
                        hit = True
                    out.append(json.dumps(e))
                    if hit and e.get("ev") == "obs":
                        break
                sp = os.path.join(cd, "selftest-%s.ndjson" % mode)
                open(sp, "w").write("\n".join(out) + "\n")
                sf, _ = vlib.tlc_trace("PagesTrace", sp, "pages-selftest", timeout=1800)
                want = "foreign-write" if mode == "owner" else "content"
                if not any(f["kind"] == want for f in sf):
                    raise ToolError("binding self-test failed: corrupted %s accepted" % mode)
                done.append(want)
                os.remove(sp)
            selftest = {"ran": True, "rejected": done}
        saved = {"stats": stats, "findings": findings, "info": info, "selftest": selftest, "relocations": relocations}
        json.dump(saved, open(res_p, "w"))
    by_id = {s["id"]: s for s in scenarios}
    nv, nk = generic_verdict("C18", saved["findings"], lambda f: {"property": "C18", "finding": f, "scenario": by_id.get(f.get("id"))})
    st = saved["stats"]
    cov = {"states": ok["states"] + saved["info"].get("distinct", 0), "transitions": ok["transitions"],
           "model": {"Pages_with_relocation_holds": True, "without_relocation_violates": neg.get("violated"),
                     "constants": "MaxPage=9 RPP=2 MaxLen=7 Others={csr,btree}"},
           "traces_validated_against_impl": len(scenarios), "evaluations": st.get("page_events", 0),
           "distinct_nontrivial": saved["relocations"],
           "rule": "growth histories (transactions of up to 700 nodes, relationships, property values up to 20 kB, vectors, index "
                   "creation, compaction, checkpoint, reopen) with the page hook on; evaluations = pager events judged against the owner "
                   "map; non-trivial = node-table pages released by a relocation (the table had to move because the next page was taken); "
                   "the transaction that triggers the last relocation of each history is also run with a process-death and a power-loss "
                   "image after every I/O step, each opened and read back (crashobs)",
           "harness_stats": st, "binding_selftest": saved["selftest"], "known_findings_seen": nk,
           "samples": [s["steps"][:6] for s in scenarios[:2]]}
    vlib.write_evidence("C18", tier, seed, "model_checking", cov, time.time() - t0, nv,
                        ASSUME_COMMON + ["ownership is per calling module (idmap, csr, blob_store, btree, catalog, ...): one B-tree writing into "
                                         "another B-tree's page is only caught through the content comparison",
                                         "index lookups are judged for soundness only (completeness is C15's subject)"])
    return 1 if nv else 0


# ------------------------------------------------------------------------------------------------
# C31: vector search
# ------------------------------------------------------------------------------------------------
def vector_scenarios(tier, seed):
    rng = random.Random(seed * 104729 + 31)
    n_sc = 8 if tier == "quick" else 60
    out = []
    for k in range(n_sc):
        m = [2, 4, 16, 2, 3, 16, 4, 2][k % 8]
        dim = rng.choice([2, 3])
        big = (k % 4 == 3)                      # a scenario that grows far beyond 2M + 1 vectors (B-tree splits in the stores)
        n_nodes = 900 if big else rng.choice([12, 40, 80])
        R = 6
        rv = lambda: [rng.randint(-R, R) for _ in range(dim)]
        steps = [{"op": "nodes", "n": n_nodes}]
        have = []
        def search():
            steps.append({"op": "search", "q": rv(), "k": rng.choice([1, 2, 3, 5, 10, 50])})
        # phase 1: at most 2M + 1 vectors, where the result must be exact
        small = list(range(2 * m + 1))
        rng.shuffle(small)
        cut = rng.randint(1, len(small))
        for chunk in (small[:cut], small[cut:]):
            if chunk:
                steps.append({"op": "setvec", "commit": True, "items": [[n, rv()] for n in chunk if n < n_nodes]})
                have += [n for n in chunk if n < n_nodes]
                search(); search()
        if rng.random() < 0.7:
            steps.append({"op": "reopen"}); steps.append(dict(steps[-2])); search()
        for _ in range(rng.randint(3, 8)):
            kind = rng.choices(["reinsert", "dup", "delete", "dropped", "compact", "reopen", "search"], [3, 2, 2, 2, 1, 2, 4])[0]
            if kind == "reinsert" and have:
                steps.append({"op": "setvec", "commit": True, "items": [[rng.choice(have), rv()]]})
            elif kind == "dup" and have:
                v = rv()
                steps.append({"op": "setvec", "commit": True, "items": [[n, v] for n in rng.sample(have, min(2, len(have)))]})
            elif kind == "delete" and have:
                steps.append({"op": "delnode", "ids": [rng.choice(have)]})
            elif kind == "dropped":
                steps.append({"op": "setvec", "commit": False, "items": [[rng.randrange(n_nodes), rv()]]})
            elif kind in ("compact", "reopen"):
                prev = [s for s in steps if s["op"] == "search"][-1]
                steps.append({"op": kind})
                steps.append(dict(prev))
            search()
        if big:
            # phase 2: grow; judged for soundness, order, distances and stability across reopen
            rest = [n for n in range(n_nodes) if n not in have]
            rng.shuffle(rest)
            for i in range(0, len(rest), 150):
                steps.append({"op": "setvec", "commit": True, "items": [[n, rv()] for n in rest[i:i + 150]]})
                search(); search()
                q = dict(steps[-1])
                steps.append({"op": rng.choice(["reopen", "compact", "reopen"])})
                steps.append(q)
        out.append({"id": "knn/%d" % k, "m": m, "steps": steps})
    return out


def hnsw_models(tier):
    """Hnsw.tla: the index as implemented, exhaustively for small constants; the pinned variants must fail"""
    runs = {}
    for cfg in ["MC_Hnsw_NoReinsert", "MC_Hnsw_Grid", "MC_Hnsw_RepairedQuick" if tier == "quick" else "MC_Hnsw_Repaired"]:
        r = model_run("MC_Hnsw", cfg, tier, "hnsw-" + cfg, workers=6, timeout=3000)
        runs[cfg] = {"holds": True, "states": r["states"], "transitions": r["transitions"]}
    for cfg in ["MC_HnswNeg_Pinned", "MC_HnswNeg_SkipSelfOnly"]:
        r = model_run("MC_Hnsw", cfg, tier, "hnsw-" + cfg, workers=4, timeout=1200, must_hold=False)
        if r.get("violated") != "ExactWhenSmall":
            raise ToolError("Hnsw sensitivity: %s must violate ExactWhenSmall, got %r" % (cfg, r.get("violated")))
        runs[cfg] = {"holds": False, "violated": r["violated"], "states": r["states"]}
    return runs


def hnsw_behaviours(tier, seed):
    """behaviours of the model (insertions with their levels, re-insertions) with the model's own answers"""
    n = 60 if tier == "quick" else 1500
    r = model_run("GenHnsw", "Gen_Hnsw", tier, "hnsw-gen-%d" % seed, workers=1, timeout=1800,
                  must_hold=False,
                  extra=["-simulate", "num=%d" % n, "-depth", "10", "-seed", str(1000 + seed)])
    out = []
    for i, b in enumerate(r.get("replay") or []):
        steps = [{"op": "nodes", "n": 5}]
        for (nid, v, lvl) in b["ops"]:
            steps.append({"op": "setvec", "commit": True, "items": [[nid, v]], "levels": [lvl]})
        want = {}
        for (q, k, ans) in b["answers"]:
            steps.append({"op": "search", "q": q, "k": k})
            want[json.dumps([q, k])] = [a[1] for a in ans]
        steps.append({"op": "reopen"})
        for (q, k, ans) in b["answers"][:2]:
            steps.append({"op": "search", "q": q, "k": k})
        out.append({"id": "hnsw/%d" % i, "m": b["m"], "steps": steps, "model_answers": want})
    if not out:
        raise ToolError("Gen_Hnsw produced no behaviours")
    return out


@reg("C31")
def c31(tier, seed, replay):
    t0 = time.time()
    vlib.build_harness()
    models = hnsw_models(tier)
    cd = cache_dir("vectors", tier, seed)
    os.makedirs(cd, exist_ok=True)
    scenarios = [json.load(open(replay))["scenario"]] if replay else vector_scenarios(tier, seed) + hnsw_behaviours(tier, seed)
    ip, tp = os.path.join(cd, "scenarios.ndjson"), os.path.join(cd, "trace.ndjson")
    res_p = os.path.join(cd, "result.json")
    if os.path.exists(res_p) and not replay:
        saved = json.load(open(res_p))
    else:
        vlib.write_ndjson(ip, scenarios)
        stats = vlib.nvx(["vectors", "--in", ip, "--out", tp, "--scratch", os.path.join(cd, "scratch")], timeout=7200)
        shutil.rmtree(os.path.join(cd, "scratch"), ignore_errors=True)
        findings, info = vlib.tlc_trace("KnnTrace", tp, "knn-" + tier, timeout=7200)
        ids, cur = {}, None
        lines = open(tp).read().splitlines()
        exact_judged = 0
        for i, l in enumerate(lines, 1):
            if '"ev":"vreset"' in l:
                cur = json.loads(l).get("id")
            ids[i] = cur
        for f in findings:
            f["id"] = ids.get(f.get("at"))
        # conformance of the implementation-shaped model: the real index, driven with the model's levels, must give the
        # model's own answers (ids in order).  Drift is reported in the evidence; the property verdict is KnnTrace's.
        conf = {"searches_compared": 0, "equal": 0, "drift": []}
        by = {s_["id"]: s_ for s_ in scenarios}
        for i, l in enumerate(lines, 1):
            e = json.loads(l)
            sc = by.get(ids.get(i)) or {}
            if e.get("op") == "search" and "model_answers" in sc:
                key = json.dumps([e["st"]["q"], e["st"]["k"]])
                want = sc["model_answers"].get(key)
                if want is not None:
                    got = [h[0] for h in e["info"]["hits"]]
                    conf["searches_compared"] += 1
                    if got == want:
                        conf["equal"] += 1
                    elif len(conf["drift"]) < 5:
                        conf["drift"].append({"id": sc["id"], "q": e["st"]["q"], "k": e["st"]["k"], "model": want, "engine": got})
        selftest = {"ran": False}
        if not replay:
            dirty = {f["at"] for f in findings}
            done = []
            for mode in ("distance", "order", "stale"):
                out, hit = [], False
                for i, l in enumerate(lines, 1):
                    e = json.loads(l)
                    if not hit and i not in dirty and e.get("op") == "search" and len(e["info"]["hits"]) >= 2 \
                            and e["info"]["hits"][0][1] != e["info"]["hits"][-1][1]:
                        h = e["info"]["hits"]
                        if mode == "distance":
                            h[0][1] = {"k": "fin", "n": h[0][1]["n"] * 2 + 3, "e": h[0][1]["e"]}
                        elif mode == "order":
                            h[0], h[-1] = h[-1], h[0]
                        else:
                            out.append(json.dumps(e))
                            e = json.loads(l)
                            e["info"]["hits"] = e["info"]["hits"][1:]
                        hit = True
                    out.append(json.dumps(e))
                    if hit:
                        break
                sp = os.path.join(cd, "selftest.ndjson")
                open(sp, "w").write("\n".join(out) + "\n")
                sf, _ = vlib.tlc_trace("KnnTrace", sp, "knn-selftest", timeout=1800)
                want = {"distance": "wrong-distance", "order": "not-sorted", "stale": "result-changed-without-a-write"}[mode]
                if not any(f["kind"] == want for f in sf):
                    raise ToolError("binding self-test failed: corrupted %s accepted" % mode)
                done.append(want)
                os.remove(sp)
            selftest = {"ran": True, "rejected": done}
        saved = {"stats": stats, "findings": findings, "info": info, "selftest": selftest, "conformance": conf}
        json.dump(saved, open(res_p, "w"))
    by_id = {s["id"]: s for s in scenarios}
    nv, nk = generic_verdict("C31", saved["findings"], lambda f: {"property": "C31", "finding": f, "scenario": by_id.get(f.get("id"))})
    st = saved["stats"]
    cov = {"states": saved["info"].get("distinct", 0) + sum(m.get("states", 0) for m in models.values()),
           "transitions": saved["info"].get("states_generated", 0),
           "model": models, "model_conformance": saved.get("conformance"),
           "traces_validated_against_impl": len(scenarios), "evaluations": st.get("searches", 0),
           "distinct_nontrivial": sum(1 for s in scenarios for x in s["steps"] if x["op"] in ("reopen", "compact")),
           "rule": "vector sets with integer coordinates in -6..6 (ties, duplicates, re-insertions, deleted nodes, vectors written by dropped "
                   "transactions), link count M in {2,3,4,16}; searches with k in {1,2,3,5,10,50}; every search is judged for size, distinctness, "
                   "liveness, exact distance, order, exactness while the index holds <= 2M+1 vectors, and equality with the same search before a "
                   "reopen / compaction; non-trivial = reopen / compaction steps followed by a repeated search.  Hnsw.tla (the index as "
                   "implemented: layered greedy descent, ef-bounded layer search, top-M selection, back links truncated at 2M) is checked "
                   "exhaustively for 4-5 nodes, M in {1,2}, levels 0..1 with re-insertion; its simulated behaviours (with the levels it chose) "
                   "are replayed on the real index through the level hook and compared with the model's own answers",
           "harness_stats": st, "binding_selftest": saved["selftest"], "known_findings_seen": nk,
           "samples": [s["steps"][:5] for s in scenarios[:2]]}
    vlib.write_evidence("C31", tier, seed, "model_checking", cov, time.time() - t0, nv,
                        ASSUME_COMMON + ["coordinates are small integers so that squared distances are exact; float rounding of sqrt is allowed 2^-20 relative",
                                         "beyond 2M+1 vectors only soundness (not recall) is judged, as the property states"])
    return 1 if nv else 0
