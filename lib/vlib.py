"""Shared machinery of /verif/bin/check: building the harness, running TLC as model
checker / trace judge / generator, classifying findings, writing evidence."""
import hashlib
import json
import os
import re
import shutil
import subprocess
import sys
import time

VERIF = os.path.dirname(os.path.dirname(os.path.abspath(__file__)))
REPO = os.environ.get("VERIF_REPO", "/repo")
WORK = os.path.join(VERIF, "work")
SPEC = os.path.join(VERIF, "spec")
HARNESS = os.path.join(VERIF, "harness")
NVX = os.path.join(HARNESS, "target", "release", "nvx")
EVIDENCE = os.path.join(VERIF, "evidence")


class ToolError(Exception):
    pass


def log(*a):
    print(*a, file=sys.stderr, flush=True)


def sh(cmd, cwd=None, env=None, timeout=None, check=True):
    e = dict(os.environ)
    if env:
        e.update(env)
    p = subprocess.run(cmd, cwd=cwd, env=e, timeout=timeout, stdout=subprocess.PIPE,
                       stderr=subprocess.STDOUT, text=True, errors="replace")
    if check and p.returncode != 0:
        raise ToolError("command failed (%d): %s\n%s" % (p.returncode, " ".join(cmd), p.stdout[-4000:]))
    return p


def workdir(name, clean=True):
    d = os.path.join(WORK, name)
    if clean and os.path.isdir(d):
        shutil.rmtree(d, ignore_errors=True)
    os.makedirs(d, exist_ok=True)
    return d


# --------------------------------------------------------------------------- build
def build_harness():
    """Rebuilds the harness (and, through path dependencies, /repo's working tree) with hooks on."""
    lock = os.path.join(HARNESS, "Cargo.lock")
    if not os.path.exists(lock):
        shutil.copy(os.path.join(REPO, "Cargo.lock"), lock)
    t0 = time.time()
    # the binary the checks run is HARNESS/target/release/nvx: do not let an inherited target dir redirect the build
    env = {"CARGO_NET_OFFLINE": "true", "CARGO_TARGET_DIR": os.path.join(HARNESS, "target")}
    import fcntl
    os.makedirs(WORK, exist_ok=True)
    with open(os.path.join(WORK, ".build.lock"), "w") as lf:
        fcntl.flock(lf, fcntl.LOCK_EX)
        p = sh(["cargo", "build", "--release", "--offline"], cwd=HARNESS, env=env, check=False, timeout=3000)
    if p.returncode != 0:
        raise ToolError("harness build failed:\n" + p.stdout[-6000:])
    return time.time() - t0


def repo_fingerprint():
    h = hashlib.sha256()
    p = sh(["git", "-C", REPO, "rev-parse", "HEAD"], check=False)
    h.update(p.stdout.encode())
    p = sh(["git", "-C", REPO, "diff", "HEAD", "--", "."], check=False)
    h.update(p.stdout.encode())
    p = sh(["git", "-C", REPO, "status", "--porcelain"], check=False)
    h.update(p.stdout.encode())
    for root, _, files in os.walk(os.path.join(HARNESS, "src")):
        for f in sorted(files):
            h.update(open(os.path.join(root, f), "rb").read())
    for f in sorted(os.listdir(SPEC)):
        h.update(open(os.path.join(SPEC, f), "rb").read())
    for f in sorted(os.listdir(os.path.join(VERIF, "lib"))):
        if f.endswith(".py"):
            h.update(open(os.path.join(VERIF, "lib", f), "rb").read())
    return h.hexdigest()[:16]


def nvx(args, timeout=3600):
    p = sh([NVX] + args, cwd=VERIF, timeout=timeout, check=False)
    if p.returncode != 0:
        raise ToolError("nvx %s failed (%d):\n%s" % (" ".join(args), p.returncode, p.stdout[-3000:]))
    last = [l for l in p.stdout.strip().splitlines() if l.startswith("{")]
    return json.loads(last[-1]) if last else {}


# --------------------------------------------------------------------------- TLC
TLC_JAR = "/opt/veriftools/tla/tla2tools.jar"


def _tlc_cmd(spec, cfg, metadir, workers, extra, heap):
    cm = "/opt/veriftools/tla/CommunityModules-deps.jar"
    # the `tlc` wrapper on PATH already has the community modules on its class path
    return ["tlc", "-workers", str(workers), "-metadir", metadir, "-cleanup", "-noGenerateSpecTE",
            "-config", cfg] + extra + [spec]


def tlc_trace(spec_name, trace_path, tag, timeout=1800, cfg_name=None):
    """Judges a recorded trace with a trace specification.  Returns (findings, info)."""
    spec = os.path.join(SPEC, spec_name + ".tla")
    cfg = os.path.join(SPEC, (cfg_name or spec_name) + ".cfg")
    md = workdir("tlc/" + tag)
    env = {"TRACE": trace_path,
           "JAVA_TOOL_OPTIONS": "-Xss1g -Xmx6g -Dtlc2.tool.queue.IStateQueue=StateDeque"}
    t0 = time.time()
    # StateDeque cannot checkpoint: a validation longer than the checkpoint interval would abort
    p = sh(_tlc_cmd(spec, cfg, md, 1, ["-checkpoint", "0"], "6g"), cwd=SPEC, env=env, timeout=timeout, check=False)
    out = p.stdout
    shutil.rmtree(md, ignore_errors=True)
    findings = []
    for m in re.finditer(r'<<"FINDING", "(.*)">>', out):
        s = m.group(1).encode().decode("unicode_escape").encode("latin-1").decode("utf-8", "replace")
        try:
            findings.append(json.loads(s))
        except Exception as e:  # pragma: no cover
            raise ToolError("cannot parse finding %r: %s" % (s, e))
    info = parse_tlc_stats(out)
    info["wall_s"] = time.time() - t0
    ok = "Model checking completed. No error has been found." in out
    if not ok:
        raise ToolError("trace validation did not complete (%s):\n%s" % (spec_name, tail_interesting(out)))
    # de-duplicate (TLC may evaluate an action twice)
    seen = set()
    uniq = []
    for f in findings:
        k = json.dumps(f, sort_keys=True)
        if k not in seen:
            seen.add(k)
            uniq.append(f)
    return uniq, info


def tail_interesting(out, n=60):
    lines = [l for l in out.splitlines() if not re.match(r"^(Semantic|Linting|Parsing|Picked up)", l)]
    return "\n".join(lines[-n:])


def parse_tlc_stats(out):
    info = {}
    m = re.findall(r"(\d+) states generated, (\d+) distinct states found, (\d+) states left on queue", out)
    if m:
        g, d, q = m[-1]
        info.update(states_generated=int(g), distinct=int(d), queue=int(q))
    m = re.search(r"The depth of the complete state graph search is (\d+)", out)
    if m:
        info["depth"] = int(m.group(1))
    return info


def tlc_model(spec_name, cfg_name, tag, workers=8, timeout=3600, extra=None, heap="8g", env_extra=None,
              coverage=True):
    """Exhaustive model checking.  Returns dict(ok, violated, states, distinct, transitions, out, coverage)."""
    spec = os.path.join(SPEC, spec_name + ".tla")
    cfg = os.path.join(SPEC, cfg_name + ".cfg")
    md = workdir("tlc/" + tag)
    env = {"JAVA_TOOL_OPTIONS": "-Xss64m -Xmx%s" % heap}
    if env_extra:
        env.update(env_extra)
    ex = list(extra or [])
    if coverage:
        ex = ["-coverage", "1"] + ex
    t0 = time.time()
    try:
        p = sh(_tlc_cmd(spec, cfg, md, workers, ex, heap), cwd=SPEC, env=env, timeout=timeout, check=False)
        out = p.stdout
        timed_out = False
    except subprocess.TimeoutExpired as e:
        out = (e.stdout or b"").decode("utf-8", "replace") if isinstance(e.stdout, bytes) else (e.stdout or "")
        timed_out = True
    shutil.rmtree(md, ignore_errors=True)
    info = parse_tlc_stats(out)
    res = dict(out=out, wall_s=time.time() - t0, timed_out=timed_out,
               states=info.get("distinct", 0), transitions=info.get("states_generated", 0),
               depth=info.get("depth", 0))
    res["ok"] = "Model checking completed. No error has been found." in out
    m = re.search(r"Error: Invariant (\w+) is violated", out)
    res["violated"] = m.group(1) if m else None
    if not m:
        m = re.search(r"Error: Action property (\w+) is violated", out)
        res["violated"] = m.group(1) if m else None
    if not res["ok"] and not res["violated"] and "Error:" in out:
        res["error"] = tail_interesting(out, 40)
    res["replay"] = [json.loads(x.encode().decode("unicode_escape")) for x in
                     re.findall(r'<<"REPLAY", "(.*)">>', out)]
    # action coverage: `<Action line ..>: distinct:total`, or for disjuncts of a wrapped next-state
    # relation `<Next line .. (l1 c1 l2 c2)>: distinct:total` -- then the name is read from line l1
    cov = {}
    spec_lines = open(spec).read().splitlines()
    for m in re.finditer(r"^<(\w+) line \d+, col \d+ to line \d+, col \d+ of module (\w+)(?: \((\d+) \d+ \d+ \d+\))?>: (\d+):(\d+)", out, re.M):
        name = m.group(1)
        if m.group(3):
            line = spec_lines[int(m.group(3)) - 1] if int(m.group(3)) <= len(spec_lines) else ""
            mm = re.search(r"\\/\s*(?:\\E[^:]*:\s*)?/?\\?\s*(\w+)", line)
            mm = re.search(r"(Begin\w+|Commit_\w+|Compact_\w+|Close_\w+|Drop|ProcessCrash|PowerLoss|Open|[A-Z]\w+)", line.split("\\/", 1)[-1]) if "\\/" in line else None
            if mm:
                name = mm.group(1)
        cov[name] = max(cov.get(name, 0), int(m.group(5)))
    res["coverage"] = cov
    return res


# --------------------------------------------------------------------------- findings
def load_known():
    p = os.path.join(VERIF, "known_findings.json")
    if not os.path.exists(p):
        return []
    return json.load(open(p)).get("findings", [])


def match_known(f, known):
    for k in known:
        if f.get("prop") not in k.get("properties", []):
            continue
        if "kinds" in k and f.get("kind") not in k["kinds"]:
            continue
        if "taint" in k and k["taint"] not in f.get("taints", []):
            continue
        if "diff_allowed" in k and not set(f.get("diff", [])) <= set(k["diff_allowed"]):
            continue
        if "detail_re" in k and not re.search(k["detail_re"], str(f.get("detail", ""))):
            continue
        if "site_re" in k and not re.search(k["site_re"], str(f.get("site", ""))):
            continue
        if "during" in k and f.get("during") not in k["during"]:
            continue
        if "fault_site_re" in k and not re.search(k["fault_site_re"], str(f.get("fault_site", ""))):
            continue
        if "after" in k and f.get("after") not in k["after"]:
            continue
        if "fields" in k and any(f.get(a) != b for a, b in k["fields"].items()):
            continue
        if "interfaces_allowed" in k and not set(f.get("interfaces", [])) <= set(k["interfaces_allowed"]):
            continue
        if "causes_allowed" in k:
            cs = (f.get("detail") if isinstance(f.get("detail"), dict) else {}).get("causes") or []
            if not cs or not set(cs) <= set(k["causes_allowed"]):
                continue
        if "cause" in k and (f.get("detail") if isinstance(f.get("detail"), dict) else {}).get("cause") != k["cause"]:
            continue
        return k
    return None


def split_trace(trace_path):
    """Returns list of (start_line, history_id) for every reset event."""
    starts = []
    with open(trace_path) as fh:
        for i, line in enumerate(fh, 1):
            if line.startswith('{"ev":"reset"'):
                starts.append((i, json.loads(line).get("id")))
    return starts


def history_of_line(starts, line):
    hid = None
    for s, h in starts:
        if s <= line:
            hid = h
        else:
            break
    return hid


def trace_line(trace_path, n):
    with open(trace_path) as fh:
        for i, line in enumerate(fh, 1):
            if i == n:
                return json.loads(line)
    return None


# --------------------------------------------------------------------------- evidence
def write_evidence(prop, tier, seed, level, coverage, wall_s, violations, assumptions):
    os.makedirs(EVIDENCE, exist_ok=True)
    ev = {"property_id": prop, "tier": tier, "seed": int(seed), "level": level, "coverage": coverage,
          "assumptions": assumptions, "wall_s": round(wall_s, 2), "violations": int(violations)}
    tmp = os.path.join(EVIDENCE, prop + ".json.tmp")
    with open(tmp, "w") as fh:
        json.dump(ev, fh, indent=1, sort_keys=True)
    os.replace(tmp, os.path.join(EVIDENCE, prop + ".json"))


def write_replay(prop, n, payload):
    d = os.path.join(WORK, "replay")
    os.makedirs(d, exist_ok=True)
    p = os.path.join(d, "%s-%d.json" % (prop, n))
    with open(p, "w") as fh:
        json.dump(payload, fh, indent=1)
    return p


def write_ndjson(path, items):
    with open(path, "w") as fh:
        for it in items:
            fh.write(json.dumps(it, separators=(",", ":")) + "\n")
