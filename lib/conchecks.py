"""Checks over forced schedules: C03 (snapshots) and C09 (auto-commit writes)."""
import json
import os
import re
import shutil
import time

import gen
import vlib
from vlib import ToolError, log
from checks import ASSUME_COMMON, cache_dir, generic_verdict, model_run, reg


def tlc_replays(spec, cfg, tag, tier):
    r = model_run(spec, cfg, tier, tag, workers=2, timeout=600)
    return r


# ------------------------------------------------------------------------------------------------
# C09
# ------------------------------------------------------------------------------------------------
def autocommit_plans(tier):
    """behaviours of AutoCommit.tla (2 threads) as coarse schedules.  The generator runs the two *weaker* variants
    (snapshot before lock; lock released before publication), whose behaviours are a superset of the code's, so that
    the real code is pushed into both windows (where it must block or stay serialisable)."""
    r = model_run("AutoCommit", "Gen_AutoCommit", tier, "autocommit-gen", workers=1, timeout=600)
    r2 = model_run("AutoCommit", "Gen_AutoCommitEarlyRelease", tier, "autocommit-gen2", workers=1, timeout=600)
    plans = (r.get("replay") or []) + (r2.get("replay") or [])
    if not plans:
        raise ToolError("Gen_AutoCommit produced no behaviours")
    uniq = []
    for p in plans:
        if p not in uniq:
            uniq.append(p)
    return uniq, r


@reg("C09")
def c09(tier, seed, replay):
    t0 = time.time()
    vlib.build_harness()
    cd = cache_dir("incr", tier, seed)
    os.makedirs(cd, exist_ok=True)
    plans, genr = autocommit_plans(tier)
    # the model with the order the code uses must hold; the other order must be caught (sensitivity)
    neg = model_run("AutoCommit", "MC_AutoCommitSnapshotFirst", tier, "autocommit-snapfirst", workers=2, timeout=600, must_hold=False)
    pos = model_run("AutoCommit", "MC_AutoCommitLockFirst", tier, "autocommit-lockfirst", workers=2, timeout=600)
    neg2 = model_run("AutoCommit", "MC_AutoCommitEarlyRelease", tier, "autocommit-early", workers=2, timeout=600, must_hold=False)
    if neg.get("violated") != "NoLostUpdate" or neg2.get("violated") != "NoLostUpdate":
        raise ToolError("AutoCommit sensitivity: snapshot-first and early lock release must violate NoLostUpdate")
    if replay:
        scenarios = [json.load(open(replay))["scenario"]]
    else:
        scenarios = [
            {"id": "increment", "mode": "increment", "setup": ["CREATE (:Ctr {v: 0})"],
             "stmts": ["MATCH (c:Ctr) SET c.v = c.v + 1", "MATCH (c:Ctr) SET c.v = c.v + 1"],
             "probe": "MATCH (c:Ctr) RETURN c.v AS v", "plans": plans},
            {"id": "increment-by", "mode": "increment", "setup": ["CREATE (:Ctr {v: 10})"],
             "stmts": ["MATCH (c:Ctr) SET c.v = c.v + 1", "MATCH (c:Ctr) WHERE c.v >= 0 SET c.v = c.v + 1, c.w = 1"],
             "probe": "MATCH (c:Ctr) RETURN c.v AS v", "plans": plans},
            {"id": "create-if-absent", "mode": "single", "setup": ["CREATE (:Other)"],
             "stmts": ["MERGE (u:U {k: 1})", "MERGE (u:U {k: 1})"],
             "probe": "MATCH (u:U) RETURN count(u) AS v", "plans": plans},
        ]
    ip, tp = os.path.join(cd, "scenarios.ndjson"), os.path.join(cd, "trace.ndjson")
    vlib.write_ndjson(ip, scenarios)
    stats = vlib.nvx(["incr", "--in", ip, "--out", tp, "--scratch", os.path.join(cd, "scratch")])
    shutil.rmtree(os.path.join(cd, "scratch"), ignore_errors=True)
    findings, info = vlib.tlc_trace("SchedTrace", tp, "incr-" + tier)
    lines = open(tp).read().splitlines()
    # which order does the code take?  (first thread that reaches both points)
    order = "unknown"
    for line in lines:
        e = json.loads(line)
        pts = [s[2] for s in e["steps"] if s[0] == e["steps"][0][0]]
        if "capi.write.after_snapshot" in pts and "capi.write.after_begin_write" in pts:
            order = "snapshot-first" if pts.index("capi.write.after_snapshot") < pts.index("capi.write.after_begin_write") else "lock-first"
            break
    by_id = {s["id"]: s for s in scenarios}
    for f in findings:
        e = json.loads(lines[f["at"] - 1])
        f["plan"] = e["schedule"]
    selftest = {"ran": False}
    if not replay:
        e = json.loads(lines[0])
        e["after"]["rows"][0]["v"] = e["after"]["rows"][0]["v"] - 1
        sp = os.path.join(cd, "selftest.ndjson")
        open(sp, "w").write(json.dumps(e) + "\n")
        sf, _ = vlib.tlc_trace("SchedTrace", sp, "incr-selftest")
        if not sf:
            raise ToolError("binding self-test failed: corrupted counter accepted")
        selftest = {"ran": True, "findings_on_corrupted_trace": len(sf)}
    nv, nk = generic_verdict("C09", findings, lambda f: {"property": "C09", "finding": f,
                                                        "scenario": dict(by_id.get(f["id"], {}), plans=[f["plan"]])})
    cov = {"states": pos["states"], "transitions": pos["transitions"],
           "model": {"lock_first_3_threads_holds": True, "snapshot_first_violates": neg.get("violated"), "early_release_violates": neg2.get("violated"),
                     "order_observed_in_the_code": order, "behaviours_replayed": len(plans)},
           "traces_validated_against_impl": stats.get("schedules", 0), "evaluations": stats.get("schedules", 0),
           "distinct_nontrivial": len(plans) * len(scenarios),
           "rule": "every behaviour of AutoCommit.tla with 2 threads (coarse steps: snapshot taken, writer lock taken, committed) is "
                   "forced on ndb_execute_write through the schedule points, for 3 statement pairs; distinct = (behaviour, scenario)",
           "harness_stats": stats, "binding_selftest": selftest, "samples": [plans[0], plans[-1]], "known_findings_seen": nk}
    vlib.write_evidence("C09", tier, seed, "model_checking", cov, time.time() - t0, nv,
                        ASSUME_COMMON + ["2 threads in the forced schedules; 3 in the model run"])
    return 1 if nv else 0


# ------------------------------------------------------------------------------------------------
# C03
# ------------------------------------------------------------------------------------------------
BASE = [{"op": "tx", "ops": [["CreateNode", "1", "A"], ["CreateNode", "2", "B"], ["CreateEdge", 0, "R", 1], ["SetNP", 0, "p", "i:1"],
                              ["SetEP", 0, "R", 1, "q", "s:x"]]}]


def snap_scenarios(tier, seed):
    import random
    rng = random.Random(seed)
    cap = 60 if tier == "quick" else 400
    sc = [
        {"id": "commit/create", "prefix": BASE, "writer": [{"op": "tx", "ops": [
            ["CreateNode", "3", "A"], ["CreateEdge", 0, "R", 2], ["CreateEdge", 2, "S", 1], ["SetNP", 2, "p", "i:5"], ["SetNP", 0, "p", "i:2"]]}]},
        {"id": "commit/labels-props-delete", "prefix": BASE + [{"op": "tx", "ops": [["CreateNode", "3", "C"], ["CreateEdge", 1, "S", 2]]}],
         "writer": [{"op": "tx", "ops": [["AddLabel", 1, "C"], ["SetNP", 1, "q", "s:new"], ["DelEdge", 1, "S", 2], ["CreateEdge", 2, "S", 0]]}]},
        {"id": "compact/two-runs", "prefix": BASE + [{"op": "tx", "ops": [["CreateEdge", 1, "R", 0], ["SetNP", 1, "p", "i:7"]]}],
         "writer": [{"op": "compact"}]},
        {"id": "compact/over-segment", "prefix": BASE + [{"op": "compact"}, {"op": "tx", "ops": [["CreateNode", "3", "A"], ["CreateEdge", 2, "R", 0], ["SetNP", 0, "p", "i:9"]]}],
         "writer": [{"op": "compact"}]},
        {"id": "commit/over-segment", "prefix": BASE + [{"op": "compact"}],
         "writer": [{"op": "tx", "ops": [["CreateNode", "3", "A"], ["CreateEdge", 2, "R", 0], ["SetNP", 0, "p", "i:9"]]}]},
        {"id": "index/create", "prefix": BASE, "writer": [{"op": "create_index", "label": "A", "key": "p"}]},
        {"id": "long-lived/two-compactions", "prefix": BASE + [{"op": "compact"}], "long_lived": True,
         "writer": [{"op": "tx", "ops": [["SetNP", 0, "p", "i:2"], ["CreateEdge", 1, "R", 0]]}, {"op": "compact"},
                    {"op": "tx", "ops": [["SetNP", 0, "p", "i:3"], ["CreateNode", "9", "A"], ["CreateEdge", 2, "R", 0]]}, {"op": "compact"}]},
        {"id": "long-lived/index-maintenance", "prefix": BASE + [{"op": "create_index", "label": "A", "key": "p"}], "long_lived": True,
         "writer": [{"op": "tx", "ops": [["SetNP", 0, "p", "i:2"]]}, {"op": "tx", "ops": [["CreateNode", "9", "A"], ["SetNP", 2, "p", "i:1"]]}]},
    ]
    # a snapshot taken at a quiescent moment and read for the first time only after later operations
    for i, w in enumerate([
            [{"op": "tx", "ops": [["CreateNode", "7", "C"], ["CreateNode", "8", "A"], ["CreateEdge", 2, "R", 3], ["SetNP", 0, "p", "i:5"], ["AddLabel", 1, "C"]]}],
            [{"op": "tx", "ops": [["CreateNode", "7", "C"], ["SetNP", 2, "p", "i:5"]]}, {"op": "compact"}],
            [{"op": "tx", "ops": [["DelNode", 1]]}, {"op": "tx", "ops": [["CreateNode", "7", "C"]]}],
            [{"op": "tx", "ops": [["DelEdge", 0, "R", 1], ["RemNP", 0, "p"]]}]]):
        sc.append({"id": "late-first-read/%d" % i, "prefix": BASE, "late_read": True, "writer": w})
    n_rand = 2 if tier == "quick" else 25
    for i in range(n_rand):
        h = gen.gen_history(seed * 7919 + i, "rnd", "nocompact", n_ops=5, maxtx=4, aborts=False)
        pre = [o for o in h["ops"] if o["op"] == "tx"]
        if len(pre) < 2:
            continue
        w = pre.pop()
        if rng.random() < 0.4:
            pre.append(w)
            w = {"op": "compact"}
        sc.append({"id": "random/%d" % i, "prefix": pre, "writer": [w]})
    for s in sc:
        s["max_schedules"] = cap
    return sc


@reg("C03")
def c03(tier, seed, replay):
    t0 = time.time()
    vlib.build_harness()
    cd = cache_dir("snap", tier, seed)
    os.makedirs(cd, exist_ok=True)
    scenarios = [json.load(open(replay))["scenario"]] if replay else snap_scenarios(tier, seed)
    ip, tp = os.path.join(cd, "scenarios.ndjson"), os.path.join(cd, "trace.ndjson")
    vlib.write_ndjson(ip, scenarios)
    stats = vlib.nvx(["snap", "--in", ip, "--out", tp, "--scratch", os.path.join(cd, "scratch")], timeout=7200)
    shutil.rmtree(os.path.join(cd, "scratch"), ignore_errors=True)
    findings, info = vlib.tlc_trace("SchedTrace", tp, "snap-" + tier)
    lines = open(tp).read().splitlines()
    by_id = {s["id"]: s for s in scenarios}
    census = {}
    distinct_views = set()
    for line in lines:
        e = json.loads(line)
        census[e["id"]] = census.get(e["id"], 0) + 1
        distinct_views.add((e["id"], json.dumps(e["d1"], sort_keys=True)))
    selftest = {"ran": False}
    if not replay:
        dirty = {f["at"] for f in findings}
        idx = next((i for i in range(len(lines)) if (i + 1) not in dirty and json.loads(lines[i])["d1"]["np1"]), None)
        if idx is not None:
            e = json.loads(lines[idx])
            e["d1"]["np1"] = e["d1"]["np1"][1:] + [[0, "zz", "s:corrupt"]]
            sp = os.path.join(cd, "selftest.ndjson")
            open(sp, "w").write(json.dumps(e) + "\n")
            sf, _ = vlib.tlc_trace("SchedTrace", sp, "snap-selftest")
            if not sf:
                raise ToolError("binding self-test failed: corrupted snapshot dump accepted")
            selftest = {"ran": True, "findings_on_corrupted_trace": len(sf)}
    nv, nk = generic_verdict("C03", findings, lambda f: {"property": "C03", "finding": f,
                                                        "scenario": dict(by_id.get(f["id"], {}), max_schedules=2000)})
    cov = {"states": info.get("distinct", 0), "transitions": info.get("states_generated", 0),
           "traces_validated_against_impl": stats.get("schedules", 0), "evaluations": stats.get("schedules", 0),
           "distinct_nontrivial": len(distinct_views),
           "rule": "for each scenario every interleaving (quick: an even sample of 60) of the writer's and the reader's schedule points "
                   "is forced; distinct = (scenario, distinct snapshot dump observed)",
           "schedules_per_scenario": census, "harness_stats": stats, "binding_selftest": selftest,
           "samples": [{"id": s["id"], "writer": s["writer"]} for s in scenarios[:3]], "known_findings_seen": nk,
           "findings_total": len(findings)}
    vlib.write_evidence("C03", tier, seed, "model_checking", cov, time.time() - t0, nv,
                        ASSUME_COMMON + ["schedule points sit between the publication steps of commit / compaction and between the field "
                                         "reads of snapshot assembly; one writer, one reader"])
    return 1 if nv else 0


# ------------------------------------------------------------------------------------------------
# C10
# ------------------------------------------------------------------------------------------------
def handle_scenarios():
    n = lambda ext, l="A": ["CreateNode", str(ext), l]
    base = [
        {"id": "one-handle-at-a-time", "steps": [["open", "h1"], ["tx", "h1", [n(1)]], ["drop", "h1"], ["open", "h2"], ["tx", "h2", [n(2)]], ["close", "h2"]]},
        {"id": "second-open-same-process", "steps": [["open", "h1"], ["tx", "h1", [n(1)]], ["open", "h2"]]},
        {"id": "both-commit", "steps": [["open", "h1"], ["open", "h2"], ["tx", "h1", [n(1)]], ["tx", "h2", [n(2)]], ["drop", "h1"], ["drop", "h2"]]},
        {"id": "both-commit-interleaved", "steps": [["open", "h1"], ["tx", "h1", [n(1)]], ["open", "h2"], ["tx", "h2", [n(2)]], ["tx", "h1", [n(3)]],
                                                     ["tx", "h2", [n(4)]], ["close", "h1"], ["close", "h2"]]},
        {"id": "compact-under-the-other", "steps": [["open", "h1"], ["tx", "h1", [n(1), n(2), ["CreateEdge", 0, "R", 1]]], ["open", "h2"],
                                                    ["tx", "h2", [n(3)]], ["compact", "h1"], ["tx", "h2", [n(4)]], ["drop", "h2"], ["close", "h1"]]},
        {"id": "second-process", "steps": [["open", "h1"], ["tx", "h1", [n(1)]], ["child-open", "child"], ["tx", "h1", [n(2)]], ["close", "h1"]]},
        {"id": "second-process-after-close", "steps": [["open", "h1"], ["tx", "h1", [n(1)]], ["close", "h1"], ["child-open", "child"]]},
    ]
    out = [dict(s, pre="none") for s in base]
    # what lies at the path before the first open x the way each of the two handles is obtained
    pres = ["none", "empty-ndb", "empty-wal", "both-empty", "zero-pages", "closed-db", "dropped-db"]
    vias = ["engine", "db", "db-ndb", "db-wal", "symlink", "db-symlink"]
    k = 0
    for pre in pres:
        for v1 in vias:
            for v2 in vias:
                # all pairs for the fresh and the pre-created cases are few enough; keep a spread of the others
                if pre not in ("none", "empty-ndb") and (vias.index(v1) + 2 * vias.index(v2) + pres.index(pre)) % 4 != 0:
                    continue
                k += 1
                out.append({"id": "pre:%s/%s+%s" % (pre, v1, v2), "pre": pre,
                            "steps": [["open", "h1", v1], ["tx", "h1", [n(1)]], ["open", "h2", v2], ["tx", "h2", [n(2)]], ["tx", "h1", [n(3)]],
                                      ["close", "h1"], ["close", "h2"]]})
        out.append({"id": "pre:%s/child" % pre, "pre": pre,
                    "steps": [["open", "h1", "db"], ["tx", "h1", [n(1)]], ["child-open", "child"], ["tx", "h1", [n(2)]], ["close", "h1"]]})
    return out


@reg("C10")
def c10(tier, seed, replay):
    t0 = time.time()
    vlib.build_harness()
    cd = cache_dir("handles", tier, seed)
    os.makedirs(cd, exist_ok=True)
    ok = model_run("Handles", "MC_HandlesRefuse", tier, "handles-refuse", workers=2, timeout=300)
    neg = model_run("Handles", "MC_HandlesNoLock", tier, "handles-nolock", workers=2, timeout=300, must_hold=False)
    if not neg.get("violated"):
        raise ToolError("Handles sensitivity: without refusal the model must violate UniqueIds / DenseIds")
    scenarios = [json.load(open(replay))["scenario"]] if replay else handle_scenarios()
    ip, tp = os.path.join(cd, "scenarios.ndjson"), os.path.join(cd, "trace.ndjson")
    vlib.write_ndjson(ip, scenarios)
    stats = vlib.nvx(["handles", "--in", ip, "--out", tp, "--scratch", os.path.join(cd, "scratch")])
    shutil.rmtree(os.path.join(cd, "scratch"), ignore_errors=True)
    findings, info = vlib.tlc_trace("SchedTrace", tp, "handles-" + tier)
    by_id = {s["id"]: s for s in scenarios}
    selftest = {"ran": False}
    if not replay:
        e = json.loads(open(tp).readline())
        e["acked"].append(["h1", "424242"])
        sp = os.path.join(cd, "selftest.ndjson")
        open(sp, "w").write(json.dumps(e) + "\n")
        sf, _ = vlib.tlc_trace("SchedTrace", sp, "handles-selftest")
        if not any(f["kind"] == "acknowledged-commit-lost" for f in sf):
            raise ToolError("binding self-test failed: a lost acknowledged commit was accepted")
        selftest = {"ran": True, "findings_on_corrupted_trace": len(sf)}
    nv, nk = generic_verdict("C10", findings, lambda f: {"property": "C10", "finding": f, "scenario": by_id.get(f["id"])})
    cov = {"states": ok["states"], "transitions": ok["transitions"],
           "model": {"with_refusal_holds": True, "without_refusal_violates": neg.get("violated")},
           "traces_validated_against_impl": len(scenarios), "evaluations": len(scenarios), "distinct_nontrivial": len(scenarios) - 1,
           "rule": "handle scenarios: same process and a child process; commits, compaction, close in both orders; 7 states of the path "
                   "before the first open (nothing, empty page file, empty log, both empty, zero-filled pages, cleanly closed database, "
                   "dropped database) x 6 ways of obtaining each handle (engine paths, Db by base / .ndb / .wal path, through a symlinked "
                   "directory); non-trivial = a second open is attempted while a handle is open",
           "harness_stats": stats, "binding_selftest": selftest, "samples": scenarios[:2], "known_findings_seen": nk}
    vlib.write_evidence("C10", tier, seed, "model_checking", cov, time.time() - t0, nv, ASSUME_COMMON)
    return 1 if nv else 0


# ------------------------------------------------------------------------------------------------
# C29
# ------------------------------------------------------------------------------------------------
def backup_scenarios(tier, seed):
    import random
    rng = random.Random(seed)
    t1 = {"op": "tx", "ops": [["CreateNode", "11", "A"], ["CreateEdge", 0, "R", 2], ["SetNP", 0, "p", "i:2"]]}
    t2 = {"op": "tx", "ops": [["CreateNode", "12", "B"], ["SetNP", 1, "q", "s:y"]]}
    t3 = {"op": "tx", "ops": [["SetNP", 0, "p", "i:3"], ["CreateEdge", 1, "S", 0]]}
    cp = {"op": "compact"}
    cr = {"op": "close-reopen"}
    base = BASE + [{"op": "tx", "ops": [["CreateEdge", 1, "R", 0]]}]
    sc = [
        {"id": "quiescent", "prefix": base, "gaps": [[], [], []]},
        {"id": "quiescent-compacted", "prefix": base + [cp], "gaps": [[], [], []]},
        {"id": "commit-before", "prefix": base, "gaps": [[t1], [], []]},
        {"id": "commit-between", "prefix": base, "gaps": [[], [t1], []]},
        {"id": "commit-after", "prefix": base, "gaps": [[], [], [t1]]},
        {"id": "commits-everywhere", "prefix": base, "gaps": [[t1], [t2], [t3]]},
        {"id": "compact-between", "prefix": base, "gaps": [[], [cp], []]},
        {"id": "commit-compact-between", "prefix": base, "gaps": [[], [t1, cp], []]},
        {"id": "compact-commit-between", "prefix": base + [cp], "gaps": [[], [t1, cp, t2], []]},
        {"id": "close-rewrite-between", "prefix": base + [cp], "gaps": [[], [cr], []]},
        {"id": "commit-close-between", "prefix": base, "gaps": [[], [t1, cp, cr, t2], []]},
    ]
    n = 3 if tier == "quick" else 40
    for i in range(n):
        ops = [rng.choice([t1, t2, t3, cp, cp, cr]) for _ in range(rng.randint(1, 4))]
        # a transaction template is used at most once per scenario (external ids are unique)
        seen, uniq = set(), []
        for o in ops:
            k = json.dumps(o)
            if o["op"] == "tx" and k in seen:
                continue
            seen.add(k)
            uniq.append(o)
        gaps = [[], [], []]
        for o in uniq:
            gaps[rng.randrange(3)].append(o)
        sc.append({"id": "random/%d" % i, "prefix": base + ([cp] if rng.random() < 0.5 else []), "gaps": gaps})
    return sc


@reg("C29")
def c29(tier, seed, replay):
    t0 = time.time()
    vlib.build_harness()
    cd = cache_dir("backup", tier, seed)
    os.makedirs(cd, exist_ok=True)
    scenarios = [json.load(open(replay))["scenario"]] if replay else backup_scenarios(tier, seed)
    ip, tp = os.path.join(cd, "scenarios.ndjson"), os.path.join(cd, "trace.ndjson")
    vlib.write_ndjson(ip, scenarios)
    stats = vlib.nvx(["backup", "--in", ip, "--out", tp, "--scratch", os.path.join(cd, "scratch")])
    shutil.rmtree(os.path.join(cd, "scratch"), ignore_errors=True)
    findings, info = vlib.tlc_trace("SchedTrace", tp, "backup-" + tier)
    lines = open(tp).read().splitlines()
    by_id = {s["id"]: s for s in scenarios}
    completed = sum(1 for l in lines if json.loads(l).get("backup") == "ok")
    selftest = {"ran": False}
    if not replay:
        dirty = {f["at"] for f in findings}
        idx = next((i for i in range(len(lines)) if (i + 1) not in dirty and json.loads(lines[i]).get("open") == "ok"), None)
        if idx is not None:
            e = json.loads(lines[idx])
            e["d"]["np1"] = e["d"]["np1"] + [[0, "zz", "s:corrupt"]]
            sp = os.path.join(cd, "selftest.ndjson")
            open(sp, "w").write(json.dumps(e) + "\n")
            sf, _ = vlib.tlc_trace("SchedTrace", sp, "backup-selftest")
            if not sf:
                raise ToolError("binding self-test failed: corrupted restored dump accepted")
            selftest = {"ran": True, "findings_on_corrupted_trace": len(sf)}
    nv, nk = generic_verdict("C29", findings, lambda f: {"property": "C29", "finding": f, "scenario": by_id.get(f["id"])})
    cov = {"states": info.get("distinct", 0), "transitions": info.get("states_generated", 0),
           "traces_validated_against_impl": len(scenarios), "evaluations": len(scenarios), "distinct_nontrivial": completed,
           "rule": "writer operations (commits, compaction, close + log rewrite + reopen) placed in the three gaps of a backup by the "
                   "schedule controller; non-trivial = the backup completed and was restored",
           "harness_stats": stats, "binding_selftest": selftest, "samples": scenarios[3:5], "known_findings_seen": nk}
    import checks as _checks
    cov["design_models"] = _checks.run_side_models("C29", tier)
    vlib.write_evidence("C29", tier, seed, "model_checking", cov, time.time() - t0, nv,
                        ASSUME_COMMON + ["the writer operations run while the backup thread is parked at a schedule point; a writer running "
                                         "during a file copy itself is not forced"])
    return 1 if nv else 0


# ------------------------------------------------------------------------------------------------
# C35: the lock protocol
# ------------------------------------------------------------------------------------------------
def _balanced(block):
    held = []
    for s in block:
        k = (s[1], s[2])
        if s[0] == "acq":
            held.append(k)
        elif k in held:
            held.remove(k)
        else:
            return False
    return not held


def collapse_program(steps):
    """XX -> X for balanced blocks X (a loop body run once instead of n times).  A deadlock reachable with the longer
    program is reachable with the shorter one: dropping a balanced block from a behaviour only removes holders and waiters,
    and acquiring is monotone in the other threads' holdings."""
    st = [tuple(x) for x in steps]
    changed = True
    while changed:
        changed = False
        for w in range(2, len(st) // 2 + 1, 2):
            i = 0
            while i + 2 * w <= len(st):
                if st[i:i + w] == st[i + w:i + 2 * w] and _balanced(st[i:i + w]):
                    del st[i + w:i + 2 * w]
                    changed = True
                else:
                    i += 1
    return [list(x) for x in st]


def lock_programs(path):
    per = {}
    for l in open(path):
        p = json.loads(l)
        c = collapse_program(p["steps"])
        u = per.setdefault(p["universe"], {})
        key = json.dumps(c)
        if key in u:
            u[key]["names"].append(p["name"])
        else:
            u[key] = {"name": p["name"], "names": [p["name"]], "steps": c, "raw_len": len(p["steps"])}
    return {u: list(d.values()) for u, d in per.items()}


def tlc_locks(cfg, progs_path, tag, workers, timeout):
    r = vlib.tlc_model("Locks", cfg, tag, workers=workers, timeout=timeout, env_extra={"PROGRAMS": progs_path},
                       coverage=False, extra=["-deadlock"] if False else None)
    return r


@reg("C35")
def c35(tier, seed, replay):
    t0 = time.time()
    vlib.build_harness()
    cd = cache_dir("locks", tier, seed)
    res_p = os.path.join(cd, "result.json")
    if os.path.exists(res_p) and not replay:
        saved = json.load(open(res_p))
    else:
        shutil.rmtree(cd, ignore_errors=True)
        os.makedirs(cd, exist_ok=True)
        raw = os.path.join(cd, "programs.ndjson")
        threads, iters = (8, 60) if tier == "quick" else (16, 400)
        stats = vlib.nvx(["locks", "--out", raw, "--scratch", os.path.join(cd, "scratch"), "--threads", str(threads),
                          "--iters", str(iters)], timeout=1800)
        shutil.rmtree(os.path.join(cd, "scratch"), ignore_errors=True)
        per = lock_programs(raw)
        findings = []
        runs = []
        for u in stats["universes"]:
            if u["no_progress_for_30s"]:
                findings.append({"prop": "C35", "kind": "no-progress", "universe": u["universe"], "stuck": u["stuck"],
                                 "detail": "no operation completed for 30 s with %d threads running" % u["stress_threads"]})
        for uni, progs in sorted(per.items()):
            pp = os.path.join(cd, "programs-%s.ndjson" % uni)
            vlib.write_ndjson(pp, [{"name": p["name"], "steps": p["steps"]} for p in progs])
            for cfg, k in [("MC_LockOrder", 0), ("MC_Locks2", 2)] + ([("MC_Locks3", 3)] if tier == "thorough" else []):
                r = tlc_locks(cfg, pp, "locks-%s-%s-%s" % (uni, cfg, tier), 12 if k == 3 else 4, 7200)
                out = r.pop("out")
                open(os.path.join(cd, "tlc-%s-%s.out" % (uni, cfg)), "w").write(out)
                run = {"universe": uni, "cfg": cfg, "threads": k, "programs": len(progs), "states": r["states"],
                       "transitions": r["transitions"], "ok": r["ok"], "wall_s": round(r["wall_s"], 1)}
                m = re.search(r'<<"LOCKORDER", "(\w+)"(?:, (.*))?>>', out)
                if m:
                    run["lock_order"] = m.group(1)
                    run["lock_order_detail"] = m.group(2)
                if r["timed_out"]:
                    raise ToolError("Locks/%s timed out" % cfg)
                if "Deadlock reached" in out or "Temporal properties were violated" in out or r.get("violated"):
                    # the counterexample: which programs, and where each thread stands in the last state
                    states = re.findall(r"/\\ choice = (.*)\n", out)
                    pcs = re.findall(r"/\\ pc = (.*)\n", out)
                    ch = [int(x) for x in re.findall(r"\d+", states[-1])] if states else []
                    pc = [int(x) for x in re.findall(r"\d+", pcs[-1])] if pcs else []
                    where = []
                    for t, (c, at) in enumerate(zip(ch, pc)):
                        pr = progs[c - 1]
                        where.append({"thread": t + 1, "program": pr["name"], "pc": at,
                                      "blocked_on": pr["steps"][at - 1] if at <= len(pr["steps"]) else None})
                    findings.append({"prop": "C35", "kind": "model-deadlock" if "Deadlock reached" in out else "model-" + str(r.get("violated") or "liveness"),
                                     "universe": uni, "threads": k, "where": where,
                                     "detail": "threads running the recorded lock programs reach a state where none can move"})
                elif not r["ok"]:
                    raise ToolError("Locks/%s failed:\n%s" % (cfg, vlib.tail_interesting(out, 40)))
                runs.append(run)
        saved = {"stats": stats, "runs": runs, "findings": findings,
                 "programs": {u: [{"name": p["name"], "same_as": len(p["names"]), "steps": len(p["steps"]), "raw_steps": p["raw_len"]} for p in ps]
                              for u, ps in per.items()}}
        # binding self-test: a program set with an inverted pair must be rejected by the same model
        st_p = os.path.join(cd, "selftest.ndjson")
        vlib.write_ndjson(st_p, [{"name": "ab", "steps": [["acq", "a", "lock"], ["acq", "b", "lock"], ["rel", "b", "lock"], ["rel", "a", "lock"]]},
                                 {"name": "ba", "steps": [["acq", "b", "lock"], ["acq", "a", "lock"], ["rel", "a", "lock"], ["rel", "b", "lock"]]}])
        r = tlc_locks("MC_Locks2", st_p, "locks-selftest", 2, 600)
        if "Deadlock reached" not in r["out"]:
            raise ToolError("self-test failed: the AB/BA program pair was accepted by Locks.tla")
        st2 = os.path.join(cd, "selftest2.ndjson")    # recursive read with a queued writer (std RwLock semantics)
        vlib.write_ndjson(st2, [{"name": "rr", "steps": [["acq", "x", "read"], ["acq", "x", "read"], ["rel", "x", "read"], ["rel", "x", "read"]]},
                                {"name": "w", "steps": [["acq", "x", "write"], ["rel", "x", "write"]]}])
        r = tlc_locks("MC_Locks2", st2, "locks-selftest2", 2, 600)
        if "Deadlock reached" not in r["out"]:
            raise ToolError("self-test failed: recursive read + queued writer was accepted by Locks.tla")
        saved["selftest"] = {"ran": True, "rejected": ["AB/BA mutex inversion", "recursive read with a queued writer"]}
        json.dump(saved, open(res_p, "w"))
    findings = saved["findings"]
    nv, nk = generic_verdict("C35", findings, lambda f: {"property": "C35", "finding": f})
    runs = saved["runs"]
    cov = {"states": sum(r["states"] for r in runs), "transitions": sum(r["transitions"] for r in runs),
           "traces_validated_against_impl": sum(len(v) for v in saved["programs"].values()),
           "evaluations": sum(u["stress_ops_done"] for u in saved["stats"]["universes"]),
           "distinct_nontrivial": sum(len(v) for v in saved["programs"].values()),
           "rule": "lock programs = the acquire/release steps each public operation performs, observed through the lock hooks "
                   "(alone, and per call under an N-thread stress run); Locks.tla runs K threads over every multiset of programs and every "
                   "interleaving with std Mutex / writer-preferring RwLock semantics and TLC's deadlock check; the stress run itself is "
                   "watched for 30 s without progress",
           "model_runs": runs, "stress": saved["stats"]["universes"], "lock_programs": saved["programs"],
           "binding_selftest": saved.get("selftest"), "known_findings_seen": nk}
    vlib.write_evidence("C35", tier, seed, "model_checking", cov, time.time() - t0, nv,
                        ASSUME_COMMON + ["lock sequences not produced by the driver's operations (14 engine-level, 17 Db/Cypher-level, alone and under contention) are not in the model",
                                         "threads K <= 2 (quick) / 3 (thorough) explicitly; any K only when the gate-aware lock-order certificate is acyclic",
                                         "blocking other than on the engine's Mutex/RwLock objects (file locks, I/O) is not modelled"])
    return 1 if nv else 0
