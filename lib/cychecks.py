"""Value-level Cypher checks (C19 C20 C21 C22 C23): sessions generated from the universes of
CypherGen.tla, executed by `nvx cypher` on the real engine, judged by CypherTrace.tla."""
import hashlib
import json
import os
import re
import shutil
import time

import cyast
import cygen
import vlib
from vlib import ToolError, log
from checks import ASSUME_COMMON, cache_dir, generic_verdict, reg


def universes():
    """TLC evaluates CypherGen.tla: checks the laws of the oracle and exports the universes."""
    h = hashlib.sha256()
    for f in ("CypherVal.tla", "CypherGen.tla"):
        h.update(open(os.path.join(vlib.SPEC, f), "rb").read())
    p = os.path.join(vlib.WORK, "cache", "universe-%s.json" % h.hexdigest()[:16])
    if os.path.exists(p):
        return json.load(open(p))
    r = vlib.tlc_model("CypherGen", "CypherGen", "cygen", workers=1, timeout=900, coverage=False)
    out = r["out"]
    if not r["ok"]:
        raise ToolError("CypherGen: the oracle's own laws failed or TLC did not finish:\n" + vlib.tail_interesting(out, 30))
    m = re.search(r'<<"UNIVERSES", "(.*)">>', out)
    if not m:
        raise ToolError("CypherGen did not export the universes")
    u = json.loads(m.group(1).encode().decode("unicode_escape"))
    res = {"universes": u, "laws_wall_s": r["wall_s"], "assumes": out.count("ASSUME") or None}
    os.makedirs(os.path.dirname(p), exist_ok=True)
    json.dump(res, open(p, "w"))
    return res


KIND_PROP = {"parity": "C34", "accept": "C34", "ext": "C32", "bread": "C30", "txn": "C24", "upd": "C12", "idx": "C15", "lim": "C33", "read": "C11", "truth3": "C23", "cmp": "C23", "arith": "C23", "order": "C20", "agg": "C21", "err": "C22", "part": "C19"}


def cypher_sessions(tier, seed, u):
    ss = [cygen.laws_session(u, tier, seed), cygen.order_session(u, tier, seed * 7 + 1),
          cygen.agg_session(u, tier, seed * 11 + 2), cygen.err_session(tier, seed * 13 + 3)]
    ss += cygen.part_sessions(tier, seed * 17 + 4)
    ss += cyast.read_sessions(tier, seed * 19 + 5)
    ss += cyast.index_sessions(tier, seed * 23 + 6)
    ss += cyast.limit_sessions(tier, seed * 29 + 7)
    ss += cyast.update_sessions(tier, seed * 31 + 8)
    ss += cyast.capi_sessions(tier, seed * 37 + 9)
    ss += cyast.bulk_sessions(tier, seed * 41 + 10)
    ss += ext_sessions(tier, seed * 43 + 11)
    ss += cyast.parity_sessions(tier, seed * 47 + 12)
    return ss


def ext_sessions(tier, seed):
    """behaviours of ExtId.tla (statement sizes + the clock reading of every node creation) as CREATE statements"""
    import random
    from checks import model_run
    r = model_run("ExtId", "Gen_ExtId", tier, "extid-gen", workers=1, timeout=900)
    plans = []
    for p in r.get("replay") or []:
        if p and p not in plans and all(len(st["reads"]) == st["n"] for st in p):
            plans.append(p)
    if not plans:
        raise ToolError("Gen_ExtId produced no behaviours")
    rng = random.Random(seed)
    rng.shuffle(plans)
    plans = plans[:40 if tier == "quick" else 400]
    sessions = []
    for k, p in enumerate(plans):
        cases, cid = [], 0
        for si, st in enumerate(p):
            cid += 1
            clock = [1000000 + t for t in st["reads"]]
            cases.append({"cid": cid, "kind": "ext", "mode": "write", "dump": True, "clock": clock,
                          "query": "UNWIND range(1, %d) AS i CREATE (:N {s: %d, i: i})" % (st["n"], si),
                          "meta": {"n": st["n"], "stmt": si, "clock": clock}})
            if (k + si) % 2 == 0:
                # a statement that creates a node and then fails (a map is not a storable property value): the transaction is
                # dropped with an identity reserved; the statements after it must still succeed
                cid += 1
                fclock = [3000000 + 10 * si, 3000000 + 10 * si + 1]
                cases.append({"cid": cid, "kind": "extfail", "mode": "write", "dump": True, "clock": fclock,
                              "query": "UNWIND [[1], [{a: 1}]] AS v CREATE (:Tmp {bad: v})",
                              "meta": {"n": 0, "stmt": si, "clock": fclock}})
        for q in ("#compact", "#reopen"):
            cid += 1
            cases.append({"cid": cid, "kind": "extadmin", "mode": "admin", "dump": True, "query": q, "meta": {"n": 0, "clock": []}})
        sessions.append({"id": "ext/%d" % k, "setup": [], "dump": True, "cases": cases})
    return sessions


def corrupt_for_selftest(lines, dirty_lines=()):
    """Flip recorded observations (one per case kind, on lines without findings of their own) and
    return the kinds corrupted."""
    out, done = [], set()
    for lineno, line in enumerate(lines, 1):
        e = json.loads(line)
        if lineno in dirty_lines:
            out.append(line)
            continue
        if e.get("ev") == "case" and e["kind"] not in ("part", "err") and e["kind"] not in done \
                and e["res"]["out"] == "rows" and e["res"]["rows"]:
            k = e["kind"]
            rows = e["res"]["rows"]
            if k == "truth3":
                rows[0][2] = ["bool", rows[0][2] != ["bool", True]]
            elif k == "cmp":
                rows[1][2], rows[1][3] = ["bool", True], ["bool", True]
            elif k == "arith":
                rows[0][1] = ["int", {"s": 1, "m": [4242]}]
            elif k == "order" and len(rows) > 1:
                rows[0], rows[-1] = rows[-1], rows[0]
                if rows[0] == rows[-1]:
                    continue
            elif k == "agg":
                rows[0][1] = ["int", {"s": 1, "m": [77]}]
            elif k in ("read", "idx", "bread"):
                rows.append(rows[0])
            elif k == "parity" and e["res"].get("rowstrs"):
                e["res"]["rowstrs"] = e["res"]["rowstrs"][1:]
            elif k == "ext" and e.get("graph", {}).get("nodes"):
                e["graph"]["nodes"] = e["graph"]["nodes"][:-1]
            elif k == "upd" and e.get("graph", {}).get("nodes"):
                e["graph"]["nodes"][0]["labels"] = e["graph"]["nodes"][0]["labels"] + ["Zz"]
            elif k == "lim" and e.get("resl") and any(r["out"] == "rows" and r["canon"] for r in e["resl"]):
                r = next(r for r in e["resl"] if r["out"] == "rows" and r["canon"])
                r["canon"] = r["canon"][1:]
            else:
                out.append(line)
                continue
            done.add(k)
            out.append(json.dumps(e, separators=(",", ":")))
        elif e.get("ev") == "case" and e["kind"] == "err" and "err" not in done and e["res"]["out"] == "err" \
                and e["meta"]["op"] == "plain":
            e["res"]["out"] = "rows"
            done.add("err")
            out.append(json.dumps(e, separators=(",", ":")))
        elif e.get("ev") == "case" and e["kind"] == "part" and "part" not in done and e["resq"][1]["out"] == "rows" \
                and e["resq"][1]["canon"]:
            e["resq"][1]["canon"] = e["resq"][1]["canon"][1:]
            done.add("part")
            out.append(json.dumps(e, separators=(",", ":")))
        else:
            out.append(line)
    return out, done


def judge_in_chunks(lines, cd, tag, n_chunks):
    """Sessions are independent (the monitor resets at every session event), so a long trace is split into pieces made of
    whole sessions and the pieces are judged by parallel TLC processes; line numbers are mapped back.  Sessions are dealt
    out by estimated cost (update and transaction cases are the expensive ones for the reference) so that the pieces
    finish at about the same time."""
    starts = [i for i, l in enumerate(lines) if '"ev":"session"' in l and json.loads(l).get("ev") == "session"]
    if n_chunks <= 1 or len(starts) < 2:
        p = os.path.join(cd, "chunk-0.ndjson")
        open(p, "w").write("\n".join(lines) + "\n")
        return vlib.tlc_trace("CypherTrace", p, tag, timeout=10800)
    bounds = starts + [len(lines)]
    head = list(range(0, starts[0]))            # anything before the first session travels with the first piece
    sessions = []
    for k in range(len(starts)):
        a, b = bounds[k], bounds[k + 1]
        w = 0
        for l in lines[a:b]:
            w += 8 if ('"kind":"upd"' in l or '"kind":"txn"' in l) else 12 if '"kind":"idx"' in l \
                else 3 if ('"kind":"read"' in l or '"kind":"bread"' in l) else 1
        sessions.append((w, a, b))
    n_chunks = max(1, min(n_chunks, len(sessions)))
    load = [0] * n_chunks
    members = [[] for _ in range(n_chunks)]
    for w, a, b in sorted(sessions, key=lambda t: -t[0]):
        k = load.index(min(load))
        load[k] += w
        members[k].append((a, b))
    pieces = []
    for k in range(n_chunks):
        idx = (head if k == 0 else [])
        for a, b in sorted(members[k]):
            idx = idx + list(range(a, b))
        if idx:
            pieces.append(idx)
    from concurrent.futures import ThreadPoolExecutor

    def run(k):
        idx = pieces[k]
        p = os.path.join(cd, "chunk-%d.ndjson" % k)
        open(p, "w").write("\n".join(lines[i] for i in idx) + "\n")
        f, info = vlib.tlc_trace("CypherTrace", p, "%s-c%d" % (tag, k), timeout=10800)
        for x in f:
            x["at"] = idx[x["at"] - 1] + 1          # back to the line number in the whole trace
        return f, info
    findings, total = [], {"distinct": 0, "states_generated": 0, "chunks": len(pieces)}
    with ThreadPoolExecutor(max_workers=min(14, len(pieces))) as ex:
        for f, info in ex.map(run, range(len(pieces))):
            findings += f
            total["distinct"] += info.get("distinct", 0)
            total["states_generated"] += info.get("states_generated", 0)
    findings.sort(key=lambda x: x.get("at", 0))
    return findings, total


def cypher_family(tier, seed, sessions=None, tag="main"):
    cd = cache_dir("cypher-" + tag, tier, seed)
    res_p = os.path.join(cd, "result.json")
    if sessions is None and os.path.exists(res_p):
        return json.load(open(res_p))
    t0 = time.time()
    vlib.build_harness()
    uni = universes()
    if os.path.isdir(cd):
        shutil.rmtree(cd, ignore_errors=True)
    os.makedirs(cd, exist_ok=True)
    ss = sessions if sessions is not None else cypher_sessions(tier, seed, uni["universes"])
    sp = os.path.join(cd, "sessions.ndjson")
    tp = os.path.join(cd, "trace.ndjson")
    vlib.write_ndjson(sp, ss)
    stats = vlib.nvx(["cypher", "--in", sp, "--out", tp, "--scratch", os.path.join(cd, "scratch")])
    shutil.rmtree(os.path.join(cd, "scratch"), ignore_errors=True)
    lines = open(tp).read().splitlines()
    findings, info = judge_in_chunks(lines, cd, "cytrace-" + tag + "-" + tier, 1 if len(lines) < 4000 else 14)
    census, errs, nrows, nonempty = {}, {}, {}, {}
    for line in lines:
        e = json.loads(line)
        if e["ev"] == "case":
            k = e["kind"]
            census[k] = census.get(k, 0) + 1
            if e["res"]["out"] != "rows":
                errs[k] = errs.get(k, 0) + 1
            rows = e["res"]["rows"]
            if k == "part":
                rows = e["resq"][0]["canon"] if e["resq"][0]["out"] == "rows" else []
                # non-trivial: both the predicate and its negation keep some row
                if all(r["out"] == "rows" for r in e["resq"]) and e["resq"][1]["canon"] and e["resq"][2]["canon"]:
                    nonempty[k] = nonempty.get(k, 0) + 1
            elif k == "err":
                if e["res"]["out"] == "err":
                    nonempty[k] = nonempty.get(k, 0) + 1
            elif k in ("upd", "ext"):
                if e["res"]["out"] == "rows":
                    nonempty[k] = nonempty.get(k, 0) + 1
            elif k == "parity":
                if e["res"].get("rowstrs"):
                    nonempty[k] = nonempty.get(k, 0) + 1
            elif k == "accept":
                if e["res_query"]["out"] != e["res_exec"]["out"]:
                    nonempty[k] = nonempty.get(k, 0) + 1
            elif k == "lim":
                outs = {r["out"] for r in e.get("resl", [])}
                if "err" in outs:      # non-trivial: some limit setting actually stopped the query
                    nonempty[k] = nonempty.get(k, 0) + 1
            elif rows:
                nonempty[k] = nonempty.get(k, 0) + 1
            nrows[k] = nrows.get(k, 0) + len(rows)
    for f in findings:
        e = json.loads(lines[f["at"] - 1])
        f["query"] = e.get("query")
        f["meta"] = e.get("meta")
    selftest = {"ran": False}
    if sessions is None:
        cl, done = corrupt_for_selftest(lines, {f["at"] for f in findings})
        # only the sessions that hold a corrupted line are judged again (the others are unchanged)
        changed = [i for i in range(len(lines)) if cl[i] != lines[i]]
        starts = [i for i, l in enumerate(lines) if '"ev":"session"' in l[:40]] or [0]
        keep = []
        for k, a in enumerate(starts):
            b = starts[k + 1] if k + 1 < len(starts) else len(lines)
            if any(a <= i < b for i in changed):
                keep += list(range(a, b))
        if starts[0] > 0:
            keep = list(range(0, starts[0])) + keep
        stp = os.path.join(cd, "selftest.ndjson")
        open(stp, "w").write("\n".join(cl[i] for i in keep) + "\n")
        sf, _ = vlib.tlc_trace("CypherTrace", stp, "cytrace-selftest-" + tier, timeout=7200)
        for f in sf:
            f["at"] = keep[f["at"] - 1] + 1
        base = {(f["at"], f["kind"]) for f in findings}
        new = {KIND_PROP.get(f["case"]) for f in sf if (f["at"], f["kind"]) not in base}
        missing = {KIND_PROP[k] for k in done} - new
        if missing:
            raise ToolError("binding self-test failed: corrupted observations accepted for %s" % sorted(missing))
        selftest = {"ran": True, "kinds_corrupted": sorted(done), "sessions_rejudged_lines": len(keep),
                    "new_findings_on_corrupted_trace": len([f for f in sf if (f["at"], f["kind"]) not in base])}
    res = {"tier": tier, "seed": seed, "trace": tp, "sessions_file": sp, "stats": stats, "tlc": info,
           "findings": findings, "census": census, "errors_by_kind": errs, "rows_by_kind": nrows,
           "nontrivial_by_kind": nonempty, "selftest": selftest,
           "laws": {k: uni[k] for k in uni if k != "universes"},
           "universe_sizes": {k: len(v) for k, v in uni["universes"].items()},
           "wall_s": time.time() - t0}
    json.dump(res, open(res_p, "w"))
    return res


def find_case(sessions_file, sid, cid):
    for line in open(sessions_file):
        s = json.loads(line)
        if s["id"] == sid:
            for c in s["cases"]:
                if c["cid"] == cid:
                    return {"id": s["id"], "setup": s.get("setup", []), "dump": s.get("dump", False), "cases": [c]}
    return None


def cy_prop(prop, tier, seed, replay, kinds, note, rule):
    t0 = time.time()
    if replay:
        payload = json.load(open(replay))
        fam = cypher_family(tier, seed, sessions=[payload["session"]], tag="replay-" + prop)
    else:
        fam = cypher_family(tier, seed)
    nv, nk = generic_verdict(prop, fam["findings"], lambda f: {
        "property": prop, "finding": f, "session": find_case(fam["sessions_file"], f["sid"], f["cid"])})
    evals = sum(fam["census"].get(k, 0) for k in kinds)
    samples = []
    for line in open(fam["sessions_file"]):
        s = json.loads(line)
        for c in s["cases"]:
            if c["kind"] in kinds and len(samples) < 3 and len(json.dumps(c)) < 4000:
                samples.append({"query": c["query"], "params": c.get("params"), "meta": c.get("meta")})
    cov = {"traces_validated_against_impl": evals, "evaluations": evals,
           "distinct_nontrivial": sum(fam["nontrivial_by_kind"].get(k, 0) for k in kinds),
           "rows_judged": sum(fam["rows_by_kind"].get(k, 0) for k in kinds),
           "rule": rule + "; non-trivial = the engine answered with at least one row (part: both p and NOT p keep a row; "
                          "err: the engine raised)", "states": fam["tlc"].get("distinct", 0), "transitions": fam["tlc"].get("states_generated", 0),
           "case_census": fam["census"], "cases_answered_with_error": fam["errors_by_kind"],
           "oracle_laws_checked_by_tlc": fam["laws"], "universe_sizes": fam["universe_sizes"],
           "harness_stats": fam["stats"], "binding_selftest": fam["selftest"], "samples": samples,
           "known_findings_seen": nk, "findings_total_all_properties": len(fam["findings"])}
    import checks as _checks
    if prop in _checks.SIDE_MODELS:
        cov["design_models"] = _checks.run_side_models(prop, tier)
    vlib.write_evidence(prop, tier, seed, "model_checking", cov, time.time() - t0, nv, ASSUME_COMMON + [note])
    return 1 if nv else 0


@reg("C23")
def c23(tier, seed, replay):
    return cy_prop("C23", tier, seed, replay, ["truth3", "cmp", "arith"],
                   "laws are checked on the observed tables over the universes of CypherGen.tla; floats are dyadic rationals, "
                   "NaN and infinities (values whose exact value the specification can represent)",
                   "truth tables (parameter and literal form), full comparison tables of the value universe (6 operators), "
                   "integer operators over boundary operand pairs; distinct = cases answered with rows")


@reg("C20")
def c20(tier, seed, replay):
    return cy_prop("C20", tier, seed, replay, ["order"],
                   "at most one map per key list; nodes/relationships/paths as sort keys are not generated (their mutual order "
                   "is implementation defined)",
                   "seeded key lists drawn from OrderUniverse (1-2 keys, ASC/DESC, SKIP, LIMIT); output must be a permutation "
                   "slice, sorted by OrdCmp, at the positions SKIP/LIMIT select")


@reg("C21")
def c21(tier, seed, replay):
    return cy_prop("C21", tier, seed, replay, ["agg", "arith"],
                   "groups hold values of one kind for min/max; avg is checked to relative error 2^-48",
                   "seeded (key, value) row lists; count(*), count, sum, min, max, collect, avg and DISTINCT forms checked per "
                   "group against exact folds; integer sums near the 64-bit limits")


@reg("C22")
def c22(tier, seed, replay):
    return cy_prop("C22", tier, seed, replay, ["err"],
                   "failing expressions are ones the engine itself classifies as runtime errors; LIMIT cases claim only rows "
                   "before the limit",
                   "one failing row at several positions x operators (plain, DISTINCT, UNION [ALL], ORDER BY, aggregation, "
                   "collect, WITH [DISTINCT|aggregate|ORDER BY], WHERE, LIMIT) x expression positions")


@reg("C19")
def c19(tier, seed, replay):
    return cy_prop("C19", tier, seed, replay, ["part"],
                   "predicates that raise in every variant are outside the claim",
                   "predicate pool x MATCH / OPTIONAL MATCH+WITH / UNWIND bases on two graphs, with and without property "
                   "indexes; bag identity rows(p)+rows(NOT p)+rows(p IS NULL)=rows() on the observed rows")


@reg("C11")
def c11(tier, seed, replay):
    return cy_prop("C11", tier, seed, replay, ["read"],
                   "fragment: MATCH / OPTIONAL MATCH chains of <= 2 hops with labels, types, directions, *lo..hi, inline "
                   "properties; WHERE over comparisons / boolean logic / IS NULL / IN / labels; WITH, UNWIND, DISTINCT, "
                   "count/collect/min/max/sum, ORDER BY, SKIP, LIMIT.  The reference runs on the graph as dumped through the "
                   "storage read API (whose agreement with the abstract graph is C06)",
                   "seeded random graphs (plain, parallel relationships, self loops, compacted, layered over a segment) x "
                   "seeded random well-scoped queries; rows compared as a bag, or as an order-respecting slice under ORDER BY")


# ------------------------------------------------------------------------------------------------
# C27: ordered index keys
# ------------------------------------------------------------------------------------------------
def key_lists(tier, seed):
    import random
    import struct
    rng = random.Random(seed)
    I64 = [-2**63, -2**63 + 1, -2**53 - 1, -2**53, -2**32, -65536, -256, -255, -2, -1, 0, 1, 2, 127, 128, 255, 256,
           65535, 65536, 2**31 - 1, 2**31, 2**32, 2**53, 2**53 + 1, 2**62, 2**63 - 2, 2**63 - 1]

    def fbits(x):
        return "%016x" % struct.unpack(">Q", struct.pack(">d", x))[0]
    FL = [float("-inf"), -2.0**63, -2.0**53 - 2, -65536.5, -2.0, -1.5, -1.0, -0.5, -2.0**-20, -0.0, 0.0, 2.0**-40, 2.0**-20,
          0.5, 1.0, 1.5, 2.0, 255.0, 256.0, 65536.5, 2.0**53, 2.0**53 + 2, 2.0**63, float("inf"),
          # magnitudes far below 1: subnormals, the smallest normal number, values around the machine epsilon
          5e-324, -5e-324, 1e-310, 2.2250738585072014e-308, -2.2250738585072014e-308, 1e-300, -1e-300, 2e-300,
          1e-20, 2e-20, -1e-17, 2.0**-53, 2.0**-52, -2.0**-52, 2.0**-51, 1.7976931348623157e308, -1.7976931348623157e308]
    STR = ["", "\x00", "\x00\x00", "\x00\x01", "\x01", "\x01\x00", "a", "a\x00", "a\x00b", "ab", "b", "\x7f", "A", "aa",
           "\x00\x7f", "a\x01"]
    BLOB = [[], [0], [0, 0], [0, 255], [0, 1], [1], [255], [255, 0], [0, 255, 0], [1, 0], [254], [0, 254], [255, 255]]
    lists = []

    def mk(ints, floats, strs, blobs, lid):
        vals = [{"int": str(i)} for i in ints] + [{"float": fbits(f)} for f in floats] + [{"str": s} for s in strs] \
            + [{"blob": b} for b in blobs] + [True, False, None]
        lists.append({"id": lid, "vals": vals})
    mk(I64, FL, STR, BLOB, "boundaries")
    n = 6 if tier == "quick" else 60
    for r in range(n):
        ints = [rng.choice(I64) + rng.randint(-3, 3) for _ in range(12)]
        ints = [max(-2**63, min(2**63 - 1, i)) for i in ints] + [rng.randint(-2**63, 2**63 - 1) for _ in range(8)]
        floats = [rng.choice(FL) for _ in range(6)] + [rng.randint(-2**20, 2**20) / 2.0**rng.randint(0, 8) for _ in range(10)] \
            + [float(rng.randint(-2**40, 2**40)) for _ in range(4)]
        strs = ["".join(rng.choice("\x00\x01ab\x7f") for _ in range(rng.randint(0, 5))) for _ in range(14)]
        blobs = [[rng.choice([0, 1, 254, 255]) for _ in range(rng.randint(0, 5))] for _ in range(14)]
        mk(ints, floats, strs, blobs, "random/%d" % r)
    return lists


@reg("C27")
def c27(tier, seed, replay):
    t0 = time.time()
    vlib.build_harness()
    cd = cache_dir("keys", tier, seed)
    os.makedirs(cd, exist_ok=True)
    m = None
    if not replay:
        from checks import model_run
        m = model_run("OrderedKey", "MC_OrderedKey", tier, "orderedkey", workers=4, timeout=600)
        neg = model_run("OrderedKey", "MC_OrderedKeyNeg_NoNormalize", tier, "orderedkey-neg", workers=4, timeout=600, must_hold=False)
        if neg.get("violated") != "OrderPreserved":
            raise ToolError("OrderedKey sensitivity run: the model without -0.0 normalisation must violate OrderPreserved")
    lists = [json.load(open(replay))["list"]] if replay else key_lists(tier, seed)
    ip, tp = os.path.join(cd, "lists.ndjson"), os.path.join(cd, "trace.ndjson")
    vlib.write_ndjson(ip, lists)
    stats = vlib.nvx(["keys", "--in", ip, "--out", tp])
    findings, info = vlib.tlc_trace("OrderedKeyTrace", tp, "keys-" + tier)
    by_line = {i + 1: l for i, l in enumerate(lists)}
    selftest = {"ran": False}
    if not replay:
        e = json.loads(open(tp).readline())
        e["enc"][3], e["enc"][4] = e["enc"][4], e["enc"][3]
        sp = os.path.join(cd, "selftest.ndjson")
        open(sp, "w").write(json.dumps(e) + "\n")
        sf, _ = vlib.tlc_trace("OrderedKeyTrace", sp, "keys-selftest")
        if not sf:
            raise ToolError("binding self-test failed: swapped encodings accepted")
        selftest = {"ran": True, "findings_on_corrupted_trace": len(sf)}
    nv, nk = generic_verdict("C27", findings, lambda f: {"property": "C27", "finding": f, "list": by_line.get(f["at"])})
    npairs = sum(len(l["vals"]) ** 2 for l in lists)
    cov = {"traces_validated_against_impl": len(lists), "evaluations": npairs, "distinct_nontrivial": stats.get("values", 0),
           "rule": "boundary list + seeded lists of 64-bit integers, exactly representable non-NaN floats (both zeros, infinities), "
                   "strings and blobs with embedded 0x00/0xFF, booleans; every ordered pair of one list is judged; "
                   "distinct_nontrivial = values encoded",
           "states": (m or {}).get("states", info.get("distinct", 0)), "transitions": (m or {}).get("transitions", 0),
           "model": {"cfg": "MC_OrderedKey", "exhaustive": True, "domain": "4-bit integers, 6-bit minifloats without NaN, strings over {0,1,255} up to length 3, booleans: all pairs"},
           "harness_stats": stats, "binding_selftest": selftest, "samples": [lists[0]["vals"][:12]], "known_findings_seen": nk}
    vlib.write_evidence("C27", tier, seed, "model_checking", cov, time.time() - t0, nv,
                        ASSUME_COMMON + ["the encoder is uniform in the width (the exhaustive model run is at reduced width)",
                                         "floats outside the exactly-decomposable window (|x| >= 2^123 or more than 40 fractional bits) are not generated"])
    return 1 if nv else 0


@reg("C15")
def c15(tier, seed, replay):
    return cy_prop("C15", tier, seed, replay, ["idx"],
                   "every history runs on two databases (with / without create_index at a random point); each lookup is judged against "
                   "the reference evaluated on that database's own dumped graph, so rows(with index) = rows(scan) = reference",
                   "seeded histories of creates, updates by id and by value, property removal, label add/remove, DETACH DELETE, "
                   "compaction, reopen; after every step equality lookups for 2 labels x {1, 2, 1.0, 'a', true} in WHERE and inline form")


@reg("C33")
def c33(tier, seed, replay):
    return cy_prop("C33", tier, seed, replay, ["lim"],
                   "weakest binding of the set (differential): the oracle is the unlimited run of the same query; wall-clock overshoot "
                   "of the soft timeout is judged with a slack of 1.5 s",
                   "14 queries with large intermediates x 5 limit settings each (rows, collection items, apply rows, timeout); a limited "
                   "run must equal the unlimited rows or fail with a resource-limit error whose observed count is <= limit + 1")


@reg("C12")
def c12(tier, seed, replay):
    return cy_prop("C12", tier, seed, replay, ["upd"],
                   "graphs are compared up to node identity (bags of node signatures and of relationship signatures with endpoint "
                   "signatures); no parallel relationships and no compaction in these sessions (storage-level findings are judged by "
                   "C04-C06); change counts are not judged beyond MERGE idempotence",
                   "seeded sequences of CREATE / MERGE (+ON CREATE/ON MATCH, each MERGE repeated) / SET (property, = map, += map, labels) "
                   "/ REMOVE / DELETE / DETACH DELETE after MATCH, OPTIONAL MATCH and UNWIND prefixes; after every statement the dumped "
                   "graph must equal CypherUpdate.ApplyStmt of the previous dump")


CAPI_NOTE = ("scripts run through the public C ABI (ndb_execute_write, ndb_begin_write / ndb_txn_query / ndb_txn_commit | "
             "ndb_txn_rollback); the graph after every script is dumped through a second read-only handle and judged against "
             "CypherUpdate.ApplyStmt applied to the statements that returned OK, each on the state left by the earlier ones")


@reg("C13")
def c13(tier, seed, replay):
    return cy_prop("C13", tier, seed, replay, ["upd", "txn"],
                   "failing statements: conversion errors at a later row, index errors, a connected-node DELETE after a CREATE in "
                   "the same statement, a syntax error; auto-commit and explicit transactions ended by COMMIT and by ROLLBACK",
                   CAPI_NOTE + "; a failed statement must leave no trace, also when the transaction is committed afterwards")


@reg("C24")
def c24(tier, seed, replay):
    return cy_prop("C24", tier, seed, replay, ["txn"],
                   "6 dependency shapes (MATCH+SET, MATCH+CREATE, MERGE, DELETE of a relationship, filter on an updated value, "
                   "delete then MERGE again) x COMMIT / ROLLBACK",
                   CAPI_NOTE)


@reg("C14")
def c14(tier, seed, replay):
    return cy_prop("C14", tier, seed, replay, ["upd", "txn", "write", "admin"],
                   "every dump carried by an update / transaction event is checked for relationships whose endpoint is not listed and "
                   "for disagreement between the outgoing and the incoming view; connected-node DELETE must fail, also for "
                   "relationships created earlier in the same statement",
                   CAPI_NOTE + "; plus all update statements of the C12 sessions")


@reg("C30")
def c30(tier, seed, replay):
    return cy_prop("C30", tier, seed, replay, ["bread"],
                   "single-label nodes (the bulk loader's input format); the input is echoed by the driver in tagged-value form and "
                   "TLC builds the expected graph from it; both databases answer the same generated C11 queries, each judged against "
                   "the reference on its own dump",
                   "seeded node / relationship sets (no relationships, parallel relationships, self loops, names shared by labels and "
                   "types, all scalar kinds, lists, 64-bit integers) loaded by the bulk loader and by transactions")


@reg("C32")
def c32(tier, seed, replay):
    from checks import model_run
    m = model_run("ExtId", "MC_ExtId", tier, "extid-mc", workers=2, timeout=600, must_hold=False)
    rc = cy_prop("C32", tier, seed, replay, ["ext", "extadmin"],
                 "the clock hook replaces the wall clock read for every created node by the model's reading; node identity is the internal "
                 "id observed through the storage read API together with the node's creation tag",
                 "behaviours of ExtId.tla (2 statements of 1-3 nodes, clock ticking / stalling / stepping back between any two reads), "
                 "each followed by compaction and reopen; every statement must succeed, add its nodes and keep all identities")
    try:
        p = os.path.join(vlib.EVIDENCE, "C32.json")
        ev = json.load(open(p))
        ev["coverage"]["model"] = {"cfg": "MC_ExtId", "NeverFails": "violated" if m.get("violated") else "holds",
                                   "states": m.get("states"), "note": "the model of the allocation rule admits a duplicate id as soon as the clock advances by less than the previous statement's node count"}
        json.dump(ev, open(p, "w"), indent=1, sort_keys=True)
    except Exception:
        pass
    return rc


@reg("C34")
def c34(tier, seed, replay):
    return cy_prop("C34", tier, seed, replay, ["parity", "accept"],
                   "identical databases are built by the same statements through each API (a database can be open in one handle only); "
                   "rows are compared as bags of canonical texts (ints exact, floats bit-exact, nodes by id, relationships by "
                   "(source, type, target)); EXPLAIN is not judged; statements both entry points reject as syntax errors are not judged",
                   "value round-trips (64-bit integers, floats incl. NaN / infinities / -0.0, strings, nested lists and maps, nodes, "
                   "relationships, parameters), generated read queries on 4 graphs, and 21 statement classes offered to both entry points")
