"""Generators of value-level Cypher cases (sessions for `nvx cypher`).

The value universes come from the specification (CypherGen.tla, exported by TLC as
JSON); this module only arranges them into parameter lists and query texts.  It holds no
expected values: every case is judged by CypherTrace.tla."""
import random


def tvp(tv):
    """a tagged value (from TLC) as a parameter"""
    return {"tv": tv}


def lst(tvs):
    return {"tv": ["list", tvs]}


Q_TRUTH_PARAM = ("UNWIND $t AS a UNWIND $t AS b RETURN a, b, a AND b, a OR b, a XOR b, NOT a, "
                 "NOT (a AND b), (NOT a) OR (NOT b), NOT (a OR b), (NOT a) AND (NOT b)")
Q_TRUTH_LIT = Q_TRUTH_PARAM.replace("$t", "[true, false, null]")
Q_CMP = ("UNWIND range(0, size($v) - 1) AS i UNWIND range(0, size($v) - 1) AS j "
         "WITH i, j, $v[i] AS a, $v[j] AS b "
         "RETURN i, j, a = b AS eq, a <> b AS ne, a < b AS lt, a <= b AS le, a > b AS gt, a >= b AS ge")
ARITH = {
    "add": "p[0] + p[1]", "sub": "p[0] - p[1]", "mul": "p[0] * p[1]", "neg": "-p[0]", "abs": "abs(p[0])",
}
Q_ARITH = "UNWIND range(0, size($p) - 1) AS i WITH i, $p[i] AS p RETURN i, %s AS r"
Q_SUM = "UNWIND range(0, size($p) - 1) AS i UNWIND $p[i] AS x RETURN i, sum(x) AS r"


def laws_session(u, tier, seed):
    rng = random.Random(seed)
    cases = []
    cid = [0]

    def add(kind, query, params, meta):
        cid[0] += 1
        cases.append({"cid": cid[0], "kind": kind, "query": query, "params": params, "meta": meta})

    t3 = [["bool", True], ["bool", False], ["null"]]
    add("truth3", Q_TRUTH_PARAM, {"t": lst(t3)}, {"form": "param"})
    add("truth3", Q_TRUTH_LIT, {}, {"form": "literal"})
    cmpu = u["cmp"]
    nums = [v for v in cmpu if v[0] in ("int", "float")]
    others = [v for v in cmpu if v[0] not in ("int", "float")]
    add("cmp", Q_CMP, {"v": lst(nums)}, {"table": "numbers"})
    add("cmp", Q_CMP, {"v": lst(others + rng.sample(nums, 6))}, {"table": "others+numbers"})
    if tier != "quick":
        add("cmp", Q_CMP, {"v": lst(cmpu)}, {"table": "all"})
        for r in range(6):
            add("cmp", Q_CMP, {"v": lst(rng.sample(cmpu, 20))}, {"table": "sample%d" % r})
    ops = [v for v in u["arith"]]
    ints = [v for v in ops if v[0] == "int"]
    pairs = [[a, b] for a in ops for b in ops]
    if tier == "quick":
        edge = [v for v in ints[-8:]]
        pairs = [[a, b] for a in edge + [["null"]] for b in edge + [["null"]]] + rng.sample(pairs, 60)
    for op in ("add", "sub", "mul"):
        add("arith", Q_ARITH % ARITH[op], {"p": lst([["list", p] for p in pairs])}, {"op": op})
    un = [[a, ["int", {"s": 0, "m": [0]}]] for a in ops]
    for op in ("neg", "abs"):
        add("arith", Q_ARITH % ARITH[op], {"p": lst([["list", p] for p in un])}, {"op": op})
    ipairs = [[a, b] for a in ints for b in ints]
    if tier == "quick":
        ipairs = [[a, b] for a in ints[-8:] for b in ints[-8:]] + rng.sample(ipairs, 40)
    add("arith", Q_SUM, {"p": lst([["list", p] for p in ipairs])}, {"op": "sum"})
    return {"id": "laws", "setup": [], "cases": cases}


# --------------------------------------------------------------------------- C20
def one_of_a_kind(vals):
    """keeps at most one map (two different maps have no specified order)"""
    out, seen_map = [], False
    for v in vals:
        if v[0] == "map":
            if seen_map:
                continue
            seen_map = True
        out.append(v)
    return out


def order_session(u, tier, seed):
    rng = random.Random(seed)
    ou = u["order"]
    cases = []
    n = 40 if tier == "quick" else 400
    # values that are equal under the ordering although they differ as values: a first sort key
    # drawn from one such class ties, so the second key alone must decide
    def is_zero(v):
        return (v[0] == "int" and v[1]["s"] == 0) or (v[0] == "float" and v[1]["k"] == "fin" and v[1]["n"]["s"] == 0)

    def num_eq(v, lit):
        return (v[0] == "int" and v[1] == lit) or (v[0] == "float" and v[1]["k"] == "fin" and v[1]["e"] == 0 and v[1]["n"] == lit)
    one = {"s": 1, "m": [1]}
    p53 = {"s": 1, "m": [992, 5474, 1992, 9007]}
    NEG_NAN = {"float": "fff8000000000000"}
    POS_NAN = {"float": "7ff8000000000000"}
    tie_classes = [[tvp(v) for v in ou if is_zero(v)], [tvp(v) for v in ou if num_eq(v, one)],
                   [tvp(v) for v in ou if num_eq(v, p53)], [NEG_NAN, POS_NAN]]
    tie_classes = [t for t in tie_classes if len(t) >= 2]
    n_tie = len(tie_classes) * (3 if tier == "quick" else 12)
    for c in range(n + n_tie):
        nk = rng.choice([1, 1, 2])
        size = rng.randint(2, 12 if nk == 1 else 9)
        if c >= n:
            cls = tie_classes[(c - n) % len(tie_classes)]
            seconds = rng.sample([v for v in ou if v[0] in ("int", "float", "str", "bool", "null")], 5)
            raw = [[rng.choice(cls), tvp(rng.choice(seconds))] for _ in range(rng.randint(4, 8))]
            if (c - n) % 2 == 1:
                raw = [[b, a] for a, b in raw] + [[tvp(rng.choice(seconds)), rng.choice(cls)] for _ in range(2)]
            nk = 2
            dirs = [rng.choice([1, -1]) for _ in range(nk)]
            skip = rng.choice([-1, -1, 0, 1, 2])
            limit = rng.choice([-1, -1, 2, 3])
            cols = ["k1", "k2"]
            q = "UNWIND $rows AS r WITH r[0] AS k1, r[1] AS k2 RETURN k1, k2 ORDER BY " + ", ".join(
                cols[i] + (" DESC" if dirs[i] < 0 else "") for i in range(nk))
            if skip >= 0:
                q += " SKIP %d" % skip
            if limit >= 0:
                q += " LIMIT %d" % limit
            cases.append({"cid": c + 1, "kind": "order", "query": q, "params": {"rows": raw},
                          "meta": {"dirs": dirs, "skip": skip, "limit": limit, "ties": True}})
            continue
        if c == 0:
            keys = [[v] for v in ou]
            nk = 1
            extra_rows = [[NEG_NAN], [POS_NAN]]
        elif c == 1:
            keys = [[v] for v in ou if v[0] in ("int", "float")]
            nk = 1
        elif nk == 1:
            keys = [[v] for v in one_of_a_kind([rng.choice(ou) for _ in range(size)])]
        else:
            small = rng.sample(ou, 4)
            keys = [[rng.choice(small), rng.choice(ou)] for _ in range(size)]
            firsts = one_of_a_kind([k[0] for k in keys] + [k[1] for k in keys])
            keys = [k for k in keys if k[0] in firsts and k[1] in firsts]
        dirs = [rng.choice([1, -1]) for _ in range(nk)]
        skip = rng.choice([-1, -1, 0, 1, 2, 5])
        limit = rng.choice([-1, -1, 0, 1, 3, 7])
        if c < 2:
            skip, limit = -1, -1
        cols = ["k%d" % (i + 1) for i in range(nk)]
        q = "UNWIND $rows AS r WITH " + ", ".join("r[%d] AS %s" % (i, cols[i]) for i in range(nk))
        q += " RETURN " + ", ".join(cols) + " ORDER BY " + ", ".join(
            cols[i] + (" DESC" if dirs[i] < 0 else "") for i in range(nk))
        if skip >= 0:
            q += " SKIP %d" % skip
        if limit >= 0:
            q += " LIMIT %d" % limit
        rows_param = lst([["list", k] for k in keys])
        if c == 0:
            rows_param = [[tvp(v) for v in k] for k in keys] + extra_rows
        cases.append({"cid": c + 1, "kind": "order", "query": q, "params": {"rows": rows_param},
                      "meta": {"dirs": dirs, "skip": skip, "limit": limit}})
    return {"id": "order", "setup": [], "cases": cases}


# --------------------------------------------------------------------------- C21
Q_AGG = ("UNWIND $rows AS r WITH r[0] AS k, r[1] AS v RETURN k, count(*) AS c, count(v) AS cv, %s AS s, "
         "min(v) AS mn, max(v) AS mx, collect(v) AS col, %s AS av, count(DISTINCT v) AS cd, %s AS sd, "
         "collect(DISTINCT v) AS cold")


def agg_session(u, tier, seed):
    rng = random.Random(seed)
    vals, keys = u["aggv"], u["aggk"]
    nums = [v for v in vals if v[0] in ("int", "float")]
    small = [v for v in nums if v[0] == "float" or len(v[1]["m"]) <= 2]
    ints = [v for v in nums if v[0] == "int"]
    strs = [v for v in vals if v[0] == "str"]
    cases = []
    n = 30 if tier == "quick" else 300
    for c in range(n):
        flavour = ["small", "ints", "nums", "strs", "same"][c % 5]
        pool = {"small": small, "ints": ints, "nums": nums, "strs": strs, "same": vals}[flavour]
        ks = rng.sample(keys, rng.randint(1, 4))
        rows = []
        for _ in range(rng.randint(1, 14)):
            k = rng.choice(ks)
            if flavour == "same":
                # every group holds values of one kind only (min/max across kinds is not claimed)
                kind = ["int", "float", "str", "bool", "list"][keys.index(k) % 5]
                cand = [v for v in vals if v[0] == kind and (kind != "int" or len(v[1]["m"]) <= 2)]
                v = rng.choice(cand + [["null"]])
            else:
                v = rng.choice(pool + [["null"]])
            rows.append(["list", [k, v]])
        numeric = flavour in ("small", "ints", "nums")
        q = Q_AGG % (("sum(v)", "avg(v)", "sum(DISTINCT v)") if numeric else ("null", "null", "null"))
        cases.append({"cid": c + 1, "kind": "agg", "query": q, "params": {"rows": lst(rows)},
                      "meta": {"numeric": numeric, "flavour": flavour}})
    return {"id": "agg", "setup": [], "cases": cases}


# --------------------------------------------------------------------------- C22
FAILING = [   # (expression over x, good value, failing value)
    ("toBoolean(x)", "true", 1),
    ("toInteger(x)", "7", True),
    ("x[0]", [1], {"map": {"a": 1}}),
]
ERR_TEMPLATES = {   # op -> (pos -> query with %(f)s)
    "plain": {"return": "UNWIND $xs AS x RETURN %(f)s AS r"},
    "distinct": {"return": "UNWIND $xs AS x RETURN DISTINCT %(f)s AS r"},
    "union": {"return": "UNWIND $xs AS x RETURN %(f)s AS r UNION RETURN null AS r",
              "second": "RETURN null AS r UNION UNWIND $xs AS x RETURN %(f)s AS r"},
    "unionall": {"return": "UNWIND $xs AS x RETURN %(f)s AS r UNION ALL RETURN null AS r"},
    "orderby": {"return": "UNWIND $xs AS x RETURN %(f)s AS r ORDER BY r",
                "key": "UNWIND $xs AS x RETURN x ORDER BY %(f)s"},
    "agg": {"arg": "UNWIND $xs AS x RETURN count(%(f)s) AS r",
            "key": "UNWIND $xs AS x RETURN %(f)s AS k, count(*) AS c"},
    "collect": {"arg": "UNWIND $xs AS x RETURN collect(%(f)s) AS r"},
    "with": {"item": "UNWIND $xs AS x WITH %(f)s AS r RETURN r",
             "where": "UNWIND $xs AS x WITH x WHERE %(f)s IS NOT NULL RETURN x"},
    "with-distinct": {"item": "UNWIND $xs AS x WITH DISTINCT %(f)s AS r RETURN r"},
    "with-agg": {"arg": "UNWIND $xs AS x WITH count(%(f)s) AS c RETURN c"},
    "with-orderby": {"key": "UNWIND $xs AS x WITH x ORDER BY %(f)s RETURN x"},
    "limit": {"return": "UNWIND $xs AS x RETURN %(f)s AS r LIMIT %(limit)d"},
}


def err_session(tier, seed):
    rng = random.Random(seed)
    cases = []
    cid = 0
    for (f, good, bad) in FAILING:
        for op, poss in ERR_TEMPLATES.items():
            for pos, tmpl in poss.items():
                for n in ([3] if tier == "quick" else [1, 3, 6]):
                    for fail in sorted({0, n - 1, rng.randrange(n)}):
                        limits = [-1]
                        if "limit" in op:
                            limits = sorted({fail + 1, n, fail + 2} | ({fail} if fail > 0 else set()))
                        for limit in limits:
                            xs = [good] * n
                            xs[fail] = bad
                            cid += 1
                            eff_op, eff_fail, limit_meta = op, fail, limit
                            cases.append({"cid": cid, "kind": "err",
                                          "query": tmpl % {"f": f, "limit": limit},
                                          "params": {"xs": xs},
                                          "meta": {"op": eff_op, "pos": pos, "fail": eff_fail, "n": n,
                                                   "limit": limit_meta, "expr": f}})
    return {"id": "err", "setup": [], "cases": cases}


# --------------------------------------------------------------------------- C19
PART_GRAPHS = [
    ["CREATE (a:A {p: 1, q: 2, s: 'ab', l: [1, 2]}), (b:A {p: 2, q: 2, s: 'b'}), (c:A {q: 1.0, s: 'abc'}), "
     "(d:B {p: 1.0, s: 'x', l: []}), (e:A:B {p: null, q: 3}), (f:B), "
     "(a)-[:R {w: 1}]->(b), (a)-[:R]->(c), (b)-[:S {w: 2}]->(c), (c)-[:R]->(c), (d)-[:R {w: 1.5}]->(a), (a)-[:R]->(b)"],
    ["UNWIND range(1, 12) AS i CREATE (:A {p: i % 4, q: i % 3, s: toString(i)})",
     "MATCH (x:A), (y:A) WHERE x.p = y.q AND id(x) < id(y) CREATE (x)-[:R {w: x.p}]->(y)",
     "MATCH (x:A) WHERE x.p = 0 SET x:B REMOVE x.q"],
]
PART_BASES = [   # (prefix, vars, suffix)
    ("MATCH (n)", "n", "RETURN id(n) AS i, n.p AS p"),
    ("MATCH (n:A)", "n", "RETURN id(n) AS i, n.q AS q"),
    ("MATCH (n)-[r]->(m)", "nrm", "RETURN id(n) AS a, type(r) AS t, id(m) AS b"),
    ("MATCH (n:A)-[r:R]->(m)", "nrm", "RETURN id(n) AS a, id(m) AS b, r.w AS w"),
    ("MATCH (n)<-[r]-(m)", "nrm", "RETURN id(n) AS a, id(m) AS b"),
    ("MATCH (n:A) OPTIONAL MATCH (n)-[r:S]->(m) WITH n, r, m", "nrm", "RETURN id(n) AS a, id(m) AS b"),
    ("UNWIND $xs AS x WITH x", "x", "RETURN x"),
    ("MATCH (n:A) UNWIND $xs AS x WITH n, x", "nx", "RETURN id(n) AS i, x"),
]
PART_PREDS = {
    "n": ["n.p = 1", "n.p > 1", "n.p < n.q", "n.p IN [1, 2, null]", "n.s STARTS WITH 'a'", "n.s CONTAINS 'b'",
          "n.p IS NULL", "n.p IS NOT NULL", "n:A", "n:B", "NOT (n.p = 1)", "n.p = 1 AND n.q = 2",
          "n.p = 1 OR n.q > 1", "n.p = 1 XOR n.q = 2", "size(n.l) > 1", "n.p + 1 > 2", "toString(n.p) = '1'",
          "(n)-[:R]->()", "n.p = $v", "n.q = 1", "n.p <> n.q", "n.p = 1.0", "n.s ENDS WITH 'c'", "n.p / 0 > 1",
          "coalesce(n.p, 0) = 0", "n.p % 2 = 0", "exists((n)-[:S]->())", "n.l = [1, 2]", "n.q >= 2 AND n.p <= 1",
          "n.s > 'b'", "n.p = null", "null", "true", "false", "n.p IN $xs", "id(n) % 2 = 0"],
    "r": ["r.w = 1", "r.w > 1", "r.w IS NULL", "type(r) = 'R'", "r.w = m.p"],
    "m": ["m.p = n.p", "m:A", "m.q > n.q", "m IS NULL", "id(m) = id(n)"],
    "x": ["x = 1", "x > 1", "x IS NULL", "x IN [1, null]", "x = 'a'", "x + 1 = 2", "x = 1.0", "x <> 2", "NOT x = 1"],
}


TRUTH_GRAPH = ["UNWIND [[true, true], [true, false], [true, null], [false, true], [false, false], [false, null], "
               "[null, true], [null, false], [null, null]] AS ab CREATE (:T {a: ab[0], b: ab[1], c: true})"]
TRUTH_PREDS = ["n.a AND n.b", "n.a OR n.b", "n.a XOR n.b", "NOT n.a", "n.a XOR (n.b AND n.a)", "(n.a XOR n.b) AND n.c",
               "(n.a XOR n.b) OR n.b", "(n.a AND n.b) XOR n.c", "n.a = n.b", "n.a <> n.b", "n.a IN [n.b, true]",
               "NOT (n.a XOR n.b)", "n.a AND NOT n.b", "(n.a OR n.b) XOR (n.a AND n.b)", "n.a XOR n.b XOR n.c",
               "coalesce(n.a, false) XOR n.b", "n.a IS NULL XOR n.b", "(n.a XOR n.b) IS NULL"]


def part_sessions(tier, seed):
    rng = random.Random(seed)
    sessions = []
    # every combination of true / false / null under the boolean operators, at the root of the filter
    cases = []
    for i, p in enumerate(TRUTH_PREDS):
        for prefix, suffix in (("MATCH (n:T)", "RETURN id(n) AS i"),
                               ("MATCH (n:T) WITH n", "RETURN id(n) AS i"),
                               ("MATCH (m:T) OPTIONAL MATCH (n:T) WHERE id(n) = id(m) WITH m, n", "RETURN id(m) AS i")):
            qs = [prefix + " " + suffix, "%s WHERE %s %s" % (prefix, p, suffix),
                  "%s WHERE NOT (%s) %s" % (prefix, p, suffix), "%s WHERE (%s) IS NULL %s" % (prefix, p, suffix)]
            cases.append({"cid": len(cases) + 1, "kind": "part", "query": qs[1], "queries": qs, "params": {},
                          "meta": {"pred": p, "indexed": False}})
    sessions.append({"id": "part/truth", "setup": TRUTH_GRAPH, "cases": cases})
    xs = [1, 2, None, "a", {"fl": 1.0}, {"fl": 2.5}]
    for gi, setup in enumerate(PART_GRAPHS):
        for indexed in (False, True):
            st = list(setup)
            if indexed:
                st = ["#index A p"] + st + ["#index A q"]
            cases = []
            cid = 0
            for (prefix, vs, suffix) in PART_BASES:
                preds = []
                for v in vs:
                    preds += PART_PREDS[v]
                if tier == "quick":
                    preds = rng.sample(preds, min(len(preds), 9))
                for p in preds:
                    if ("$xs" in p or "x" in vs) and "UNWIND" not in prefix and "$xs" not in p:
                        continue
                    conj = "WHERE" if True else ""
                    qs = [prefix + " " + suffix,
                          "%s %s %s %s" % (prefix, conj, p, suffix),
                          "%s %s NOT (%s) %s" % (prefix, conj, p, suffix),
                          "%s %s (%s) IS NULL %s" % (prefix, conj, p, suffix)]
                    cid += 1
                    cases.append({"cid": cid, "kind": "part", "query": qs[1], "queries": qs,
                                  "params": {"v": 1, "xs": xs}, "meta": {"pred": p, "indexed": indexed}})
            sessions.append({"id": "part/g%d%s" % (gi, "i" if indexed else ""), "setup": st, "cases": cases})
    return sessions
