//! Tagged-string values shared by histories, traces and the TLA+ side.
//!
//!   n:            null            b:1 / b:0     bool
//!   i:<dec>       int             f:<hex bits>  float (bit-exact)
//!   s:<text>      string          d:<dec>       datetime
//!   x:<hex>       blob            l:[a|b|c]     list (elements tagged, '|' separated, nested in [])
//!   m:{k=v|k=v}   map
//! The TLA+ side treats them as opaque strings.

use nervusdb_api::PropertyValue;
use std::collections::BTreeMap;

pub fn to_tag(v: &PropertyValue) -> String {
    match v {
        PropertyValue::Null => "n:".to_string(),
        PropertyValue::Bool(b) => format!("b:{}", if *b { 1 } else { 0 }),
        PropertyValue::Int(i) => format!("i:{i}"),
        PropertyValue::Float(f) => format!("f:{:016x}", f.to_bits()),
        PropertyValue::String(s) => format!("s:{s}"),
        PropertyValue::DateTime(d) => format!("d:{d}"),
        PropertyValue::Blob(b) => {
            let mut s = String::from("x:");
            for byte in b {
                s.push_str(&format!("{byte:02x}"));
            }
            s
        }
        PropertyValue::List(l) => {
            let parts: Vec<String> = l.iter().map(to_tag).collect();
            format!("l:[{}]", parts.join("|"))
        }
        PropertyValue::Map(m) => {
            let parts: Vec<String> = m.iter().map(|(k, v)| format!("{k}={}", to_tag(v))).collect();
            format!("m:{{{}}}", parts.join("|"))
        }
    }
}

fn split_top(s: &str) -> Vec<String> {
    let mut out = Vec::new();
    let mut depth = 0i32;
    let mut cur = String::new();
    for c in s.chars() {
        match c {
            '[' | '{' => {
                depth += 1;
                cur.push(c);
            }
            ']' | '}' => {
                depth -= 1;
                cur.push(c);
            }
            '|' if depth == 0 => {
                out.push(std::mem::take(&mut cur));
            }
            _ => cur.push(c),
        }
    }
    if !cur.is_empty() || !out.is_empty() {
        out.push(cur);
    }
    out
}

pub fn from_tag(s: &str) -> PropertyValue {
    let (tag, rest) = s.split_at(2.min(s.len()));
    match tag {
        "n:" => PropertyValue::Null,
        "b:" => PropertyValue::Bool(rest == "1"),
        "i:" => PropertyValue::Int(rest.parse().expect("int tag")),
        "f:" => PropertyValue::Float(f64::from_bits(
            u64::from_str_radix(rest, 16).expect("float tag"),
        )),
        "s:" => PropertyValue::String(rest.to_string()),
        "d:" => PropertyValue::DateTime(rest.parse().expect("datetime tag")),
        "x:" => {
            let bytes = (0..rest.len() / 2)
                .map(|i| u8::from_str_radix(&rest[2 * i..2 * i + 2], 16).expect("blob tag"))
                .collect();
            PropertyValue::Blob(bytes)
        }
        "l:" => {
            let inner = &rest[1..rest.len() - 1];
            if inner.is_empty() {
                PropertyValue::List(vec![])
            } else {
                PropertyValue::List(split_top(inner).iter().map(|p| from_tag(p)).collect())
            }
        }
        "m:" => {
            let inner = &rest[1..rest.len() - 1];
            let mut m = BTreeMap::new();
            if !inner.is_empty() {
                for p in split_top(inner) {
                    let (k, v) = p.split_once('=').expect("map tag");
                    m.insert(k.to_string(), from_tag(v));
                }
            }
            PropertyValue::Map(m)
        }
        _ => panic!("bad value tag: {s}"),
    }
}
