//! Cypher-level case driver.  A *session* is a fresh database, a list of setup
//! statements and a list of cases; every case is one statement with parameters,
//! executed through the Rust API (`prepare` + `execute_streaming` / `execute_mixed`).
//! The driver records, per case, the parameters as the engine received them and the
//! rows (or the error) the engine returned, both in the tagged-value form the TLA+
//! side reads (module CypherVal).  It contains no expected values.
//!
//! Tagged values (TV), JSON arrays whose first element is the tag:
//!   ["null"]  ["bool",b]  ["int",BIG]  ["float",F]  ["str",[code points]]
//!   ["list",[TV..]]  ["map",[[[key code points],TV]..]] (sorted by key)
//!   ["node",id]  ["rel",[src,"type",dst]]  ["path",[TV..]]  ["other","text"]
//!   BIG = {"s":-1|0|1,"m":[limbs, little endian, base 10000, never empty]}
//!   F   = {"k":"nan"|"pinf"|"ninf"|"fin"|"other","neg0":bool,"n":BIG,"e":k}  value = n / 2^e
//! Every TV is accompanied by a canonical string (identity of the value, bit exact).

use nervusdb_core::Db;
use nervusdb_core::GraphSnapshot;
use nervusdb_query::{ExecuteOptions, Params, Value, prepare};
use serde_json::{Value as J, json};
use std::collections::BTreeMap;
use std::io::Write;
use std::panic::{AssertUnwindSafe, catch_unwind};
use std::path::Path;

pub fn big_from_i128(v: i128) -> J {
    let s = if v > 0 { 1 } else if v < 0 { -1 } else { 0 };
    let mut m: Vec<u32> = Vec::new();
    let mut a = v.unsigned_abs();
    if a == 0 {
        m.push(0);
    }
    while a > 0 {
        m.push((a % 10000) as u32);
        a /= 10000;
    }
    json!({"s": s, "m": m})
}

fn float_tv(f: f64) -> J {
    if f.is_nan() {
        return json!({"k": "nan", "neg0": false, "n": big_from_i128(0), "e": 0});
    }
    if f == f64::INFINITY {
        return json!({"k": "pinf", "neg0": false, "n": big_from_i128(0), "e": 0});
    }
    if f == f64::NEG_INFINITY {
        return json!({"k": "ninf", "neg0": false, "n": big_from_i128(0), "e": 0});
    }
    if f == 0.0 {
        return json!({"k": "fin", "neg0": f.is_sign_negative(), "n": big_from_i128(0), "e": 0});
    }
    // exact decomposition f = mant * 2^exp
    let bits = f.to_bits();
    let sign: i128 = if bits >> 63 == 1 { -1 } else { 1 };
    let ebits = ((bits >> 52) & 0x7ff) as i64;
    let frac = (bits & ((1u64 << 52) - 1)) as i128;
    let (mut mant, mut exp) = if ebits == 0 { (frac, -1074i64) } else { (frac | (1i128 << 52), ebits - 1075) };
    while mant & 1 == 0 && mant != 0 {
        mant >>= 1;
        exp += 1;
    }
    if exp >= 0 {
        if exp <= 70 {
            return json!({"k": "fin", "neg0": false, "n": big_from_i128(sign * (mant << exp)), "e": 0});
        }
    } else if -exp <= 40 {
        return json!({"k": "fin", "neg0": false, "n": big_from_i128(sign * mant), "e": -exp});
    }
    json!({"k": "other", "neg0": false, "n": big_from_i128(0), "e": 0, "bits": format!("{:016x}", bits)})
}

fn cps(s: &str) -> Vec<u32> {
    s.chars().map(|c| c as u32).collect()
}

thread_local! {
    /// relationship type names of the database the current case runs on (id -> name)
    static REL_NAMES: std::cell::RefCell<std::collections::HashMap<u32, String>> = std::cell::RefCell::new(Default::default());
}

fn rel_name(id: u32) -> String {
    REL_NAMES.with(|m| m.borrow().get(&id).cloned()).unwrap_or_else(|| format!("#{id}"))
}

pub fn learn_rel_names(db: &Db) {
    let snap = db.snapshot();
    REL_NAMES.with(|m| {
        let mut m = m.borrow_mut();
        m.clear();
        for id in 0..64u32 {
            if let Some(n) = snap.resolve_rel_type_name(id) {
                m.insert(id, n);
            }
        }
    });
}

/// (tagged value, canonical string)
pub fn tv(v: &Value) -> (J, String) {
    match v {
        Value::Null => (json!(["null"]), "N".into()),
        Value::Bool(b) => (json!(["bool", b]), format!("B{}", if *b { 1 } else { 0 })),
        Value::Int(i) => (json!(["int", big_from_i128(*i as i128)]), format!("I{i}")),
        Value::Float(f) => (json!(["float", float_tv(*f)]), format!("F{:016x}", f.to_bits())),
        Value::String(s) => (json!(["str", cps(s)]), format!("S{:?}", s)),
        Value::List(l) => {
            let parts: Vec<(J, String)> = l.iter().map(tv).collect();
            (
                json!(["list", parts.iter().map(|p| p.0.clone()).collect::<Vec<_>>()]),
                format!("L[{}]", parts.iter().map(|p| p.1.clone()).collect::<Vec<_>>().join(",")),
            )
        }
        Value::Map(m) => {
            let parts: Vec<(String, (J, String))> = m.iter().map(|(k, v)| (k.clone(), tv(v))).collect();
            (
                json!(["map", parts.iter().map(|(k, p)| json!([cps(k), p.0])).collect::<Vec<_>>()]),
                format!("M{{{}}}", parts.iter().map(|(k, p)| format!("{:?}:{}", k, p.1)).collect::<Vec<_>>().join(",")),
            )
        }
        Value::NodeId(id) => (json!(["node", id]), format!("n{id}")),
        Value::Node(n) => (json!(["node", n.id]), format!("n{}", n.id)),
        Value::ExternalId(x) => (json!(["other", format!("ext:{x}")]), format!("x{x}")),
        Value::EdgeKey(e) => (json!(["rel", [e.src, rel_name(e.rel), e.dst]]), format!("r{}:{}:{}", e.src, e.rel, e.dst)),
        Value::Relationship(r) => (
            json!(["rel", [r.key.src, r.rel_type.clone(), r.key.dst]]),
            format!("r{}:{}:{}", r.key.src, r.key.rel, r.key.dst),
        ),
        Value::DateTime(d) => (json!(["other", format!("datetime:{d}")]), format!("D{d}")),
        Value::Blob(b) => (json!(["other", format!("blob:{}", b.len())]), format!("X{:?}", b)),
        Value::Path(p) => (
            json!(["path", p.nodes.iter().map(|n| json!(n)).collect::<Vec<_>>(),
                   p.edges.iter().map(|e| json!([e.src, e.rel, e.dst])).collect::<Vec<_>>()]),
            format!("P{:?}/{:?}", p.nodes, p.edges.iter().map(|e| (e.src, e.rel, e.dst)).collect::<Vec<_>>()),
        ),
        Value::ReifiedPath(p) => (
            json!(["path", p.nodes.iter().map(|n| json!(n.id)).collect::<Vec<_>>(),
                   p.relationships.iter().map(|e| json!([e.key.src, e.key.rel, e.key.dst])).collect::<Vec<_>>()]),
            format!("P{:?}/{:?}", p.nodes.iter().map(|n| n.id).collect::<Vec<_>>(),
                    p.relationships.iter().map(|e| (e.key.src, e.key.rel, e.key.dst)).collect::<Vec<_>>()),
        ),
    }
}

/// Parameter syntax written by the generators:
///   null | true | false | {"int":"<dec>"} | {"float":"<hex bits>"} | {"fl":<json number>}
///   | {"str":"..."} | {"list":[..]} | {"map":{..}}
pub fn value_from_param(j: &J) -> Value {
    match j {
        J::Null => Value::Null,
        J::Bool(b) => Value::Bool(*b),
        J::Number(n) => {
            if let Some(i) = n.as_i64() {
                Value::Int(i)
            } else {
                Value::Float(n.as_f64().unwrap())
            }
        }
        J::String(s) => Value::String(s.clone()),
        J::Array(a) => Value::List(a.iter().map(value_from_param).collect()),
        J::Object(o) => {
            if let Some(x) = o.get("tv") {
                value_from_tv(x)
            } else if let Some(x) = o.get("int") {
                Value::Int(x.as_str().unwrap().parse().expect("int param"))
            } else if let Some(x) = o.get("float") {
                Value::Float(f64::from_bits(u64::from_str_radix(x.as_str().unwrap(), 16).expect("float bits")))
            } else if let Some(x) = o.get("fl") {
                Value::Float(x.as_f64().unwrap())
            } else if let Some(x) = o.get("str") {
                Value::String(x.as_str().unwrap().to_string())
            } else if let Some(x) = o.get("list") {
                Value::List(x.as_array().unwrap().iter().map(value_from_param).collect())
            } else if let Some(x) = o.get("map") {
                let mut m = BTreeMap::new();
                for (k, v) in x.as_object().unwrap() {
                    m.insert(k.clone(), value_from_param(v));
                }
                Value::Map(m)
            } else {
                panic!("bad param {j}")
            }
        }
    }
}

fn i128_from_big(b: &J) -> i128 {
    let s = b["s"].as_i64().unwrap() as i128;
    let mut v: i128 = 0;
    for limb in b["m"].as_array().unwrap().iter().rev() {
        v = v * 10000 + limb.as_i64().unwrap() as i128;
    }
    s * v
}

/// Tagged value (as printed by TLC with ToJson) -> engine value.  Only the kinds that can be
/// passed as parameters; exactness of floats is asserted by a round trip.
pub fn value_from_tv(t: &J) -> Value {
    let a = t.as_array().expect("tv array");
    match a[0].as_str().expect("tv tag") {
        "null" => Value::Null,
        "bool" => Value::Bool(a[1].as_bool().unwrap()),
        "int" => Value::Int(i64::try_from(i128_from_big(&a[1])).expect("int tv fits i64")),
        "float" => {
            let f = &a[1];
            let v = match f["k"].as_str().unwrap() {
                "nan" => f64::NAN,
                "pinf" => f64::INFINITY,
                "ninf" => f64::NEG_INFINITY,
                "fin" => {
                    let n = i128_from_big(&f["n"]);
                    let e = f["e"].as_i64().unwrap() as i32;
                    if n == 0 {
                        if f["neg0"].as_bool().unwrap_or(false) { -0.0 } else { 0.0 }
                    } else {
                        (n as f64) / 2f64.powi(e)
                    }
                }
                other => panic!("float tv kind {other} cannot be a parameter"),
            };
            let back = float_tv(v);
            if f["k"] == "fin" {
                assert!(back["n"] == f["n"] || (back["k"] == "fin" && i128_from_big(&back["n"]) << (f["e"].as_i64().unwrap() - back["e"].as_i64().unwrap()).max(0) == i128_from_big(&f["n"])),
                        "float tv not exactly representable: {f}");
            }
            Value::Float(v)
        }
        "str" => Value::String(a[1].as_array().unwrap().iter().map(|c| char::from_u32(c.as_u64().unwrap() as u32).unwrap()).collect()),
        "list" => Value::List(a[1].as_array().unwrap().iter().map(value_from_tv).collect()),
        "map" => {
            let mut m = BTreeMap::new();
            for kv in a[1].as_array().unwrap() {
                let k: String = kv[0].as_array().unwrap().iter().map(|c| char::from_u32(c.as_u64().unwrap() as u32).unwrap()).collect();
                m.insert(k, value_from_tv(&kv[1]));
            }
            Value::Map(m)
        }
        other => panic!("tv kind {other} cannot be a parameter"),
    }
}

fn build_params(case: &J) -> (Params, J) {
    let mut p = Params::new();
    if let Some(o) = case.get("options").and_then(|x| x.as_object()) {
        let d = ExecuteOptions::default();
        let g = |k: &str, dv: u64| o.get(k).and_then(|x| x.as_u64()).unwrap_or(dv);
        p.set_execute_options(ExecuteOptions {
            max_intermediate_rows: g("max_intermediate_rows", d.max_intermediate_rows as u64) as usize,
            max_collection_items: g("max_collection_items", d.max_collection_items as u64) as usize,
            soft_timeout_ms: g("soft_timeout_ms", d.soft_timeout_ms),
            max_apply_rows_per_outer: g("max_apply_rows_per_outer", d.max_apply_rows_per_outer as u64) as usize,
        });
    }
    let mut echo = Vec::new();
    if let Some(o) = case.get("params").and_then(|x| x.as_object()) {
        for (k, v) in o {
            let val = value_from_param(v);
            let (t, c) = tv(&val);
            echo.push(json!([k, t, c]));
            p.insert(k.clone(), val);
        }
    }
    (p, J::Array(echo))
}

pub fn err_class(msg: &str) -> &'static str {
    let m = msg.to_ascii_lowercase();
    if m.contains("resourcelimitexceeded") {
        "resource"
    } else if m.contains("syntax error") || m.contains("parse") || m.contains("unexpected token") {
        "syntax"
    } else if m.contains("runtime error") || m.contains("type error") || m.contains("typeerror") {
        "runtime"
    } else {
        "other"
    }
}

/// "...ResourceLimitExceeded(kind=K, limit=L, observed=O, stage=S)" -> {kind, limit, observed, stage}
pub fn parse_limit_err(msg: &str) -> J {
    let Some(i) = msg.find("ResourceLimitExceeded(") else { return json!({"kind": "none", "limit": 0, "observed": 0, "stage": ""}) };
    let inner = &msg[i + "ResourceLimitExceeded(".len()..];
    let inner = inner.trim_end_matches(')');
    let mut kind = String::new();
    let mut stage = String::new();
    let (mut limit, mut observed) = (0i64, 0i64);
    for part in inner.split(", ") {
        if let Some((k, v)) = part.split_once('=') {
            match k {
                "kind" => kind = v.to_string(),
                "limit" => limit = v.parse().unwrap_or(-1),
                "observed" => observed = v.parse().unwrap_or(-1),
                "stage" => stage = v.to_string(),
                _ => {}
            }
        }
    }
    json!({"kind": kind, "limit": limit.min(2_000_000_000), "observed": observed.min(2_000_000_000), "stage": stage})
}

pub struct Outcome {
    pub out: &'static str, // rows | err | panic
    pub cols: Vec<String>,
    pub rows: Vec<Vec<(J, String)>>,
    pub err: String,
    pub count: u32,
    pub ms: u128,
}

impl Outcome {
    pub fn to_json(&self) -> J {
        json!({
            "out": self.out, "cols": self.cols,
            "rows": self.rows.iter().map(|r| r.iter().map(|c| c.0.clone()).collect::<Vec<_>>()).collect::<Vec<_>>(),
            "canon": self.rows.iter().map(|r| r.iter().map(|c| c.1.clone()).collect::<Vec<_>>()).collect::<Vec<_>>(),
            "err": self.err, "errclass": err_class(&self.err), "count": self.count, "ms": self.ms as u64,
        })
    }
}

pub fn run_read(db: &Db, query: &str, params: &Params) -> Outcome {
    let t0 = std::time::Instant::now();
    let r = catch_unwind(AssertUnwindSafe(|| -> Result<(Vec<String>, Vec<Vec<(J, String)>>), String> {
        let q = prepare(query).map_err(|e| e.to_string())?;
        let snap = db.snapshot();
        let mut cols: Vec<String> = Vec::new();
        let mut rows = Vec::new();
        for r in q.execute_streaming(&snap, params) {
            let row = r.map_err(|e| e.to_string())?;
            if cols.is_empty() {
                cols = row.columns().iter().map(|(k, _)| k.clone()).collect();
            }
            rows.push(row.columns().iter().map(|(_, v)| tv(v)).collect());
        }
        Ok((cols, rows))
    }));
    let ms = t0.elapsed().as_millis();
    match r {
        Ok(Ok((cols, rows))) => Outcome { out: "rows", cols, rows, err: String::new(), count: 0, ms },
        Ok(Err(e)) => Outcome { out: "err", cols: vec![], rows: vec![], err: e, count: 0, ms },
        Err(_) => Outcome { out: "panic", cols: vec![], rows: vec![], err: "panic".into(), count: 0, ms },
    }
}

/// Auto-commit write through the Rust API: snapshot, begin_write, execute_mixed, commit.
pub fn run_write(db: &Db, query: &str, params: &Params) -> Outcome {
    let t0 = std::time::Instant::now();
    let r = catch_unwind(AssertUnwindSafe(|| -> Result<(Vec<String>, Vec<Vec<(J, String)>>, u32), String> {
        let q = prepare(query).map_err(|e| e.to_string())?;
        let snap = db.snapshot();
        let mut txn = db.begin_write();
        let (rows, count) = q.execute_mixed(&snap, &mut txn, params).map_err(|e| e.to_string())?;
        txn.commit().map_err(|e| e.to_string())?;
        let mut cols: Vec<String> = Vec::new();
        let mut out = Vec::new();
        for m in rows {
            let mut ks: Vec<&String> = m.keys().collect();
            ks.sort();
            if cols.is_empty() {
                cols = ks.iter().map(|k| (*k).clone()).collect();
            }
            out.push(ks.iter().map(|k| tv(&m[*k])).collect());
        }
        Ok((cols, out, count))
    }));
    let ms = t0.elapsed().as_millis();
    match r {
        Ok(Ok((cols, rows, count))) => Outcome { out: "rows", cols, rows, err: String::new(), count, ms },
        Ok(Err(e)) => Outcome { out: "err", cols: vec![], rows: vec![], err: e, count: 0, ms },
        Err(_) => Outcome { out: "panic", cols: vec![], rows: vec![], err: "panic".into(), count: 0, ms },
    }
}

/// Logical dump of the database through Cypher-independent storage reads, with property
/// values in tagged-value form (used by update-semantics checks).
pub fn graph_dump(db: &Db) -> J {
    let snap = db.snapshot();
    let r = catch_unwind(AssertUnwindSafe(|| {
        let mut nodes = Vec::new();
        let mut rels = Vec::new();
        let ids: Vec<u32> = snap.nodes().collect();
        for &n in &ids {
            let mut labels: Vec<String> = Vec::new();
            if let Some(ls) = snap.resolve_node_labels(n) {
                for l in ls {
                    if let Some(name) = snap.resolve_label_name(l) {
                        labels.push(name);
                    }
                }
            }
            // engine order is kept: the first label is the one the node table persists
            let mut props = Vec::new();
            if let Some(m) = snap.node_properties(n) {
                for (k, v) in m {
                    let val = nervusdb_query::executor::convert_api_property_to_value(&v);
                    let (t, c) = tv(&val);
                    props.push(json!([k, t, c]));
                }
            }
            nodes.push(json!({"id": n, "labels": labels, "props": props}));
        }
        for &n in &ids {
            for e in snap.neighbors(n, None) {
                let t = snap.resolve_rel_type_name(e.rel).unwrap_or_else(|| format!("#{}", e.rel));
                let mut props = Vec::new();
                if let Some(m) = snap.edge_properties(e) {
                    for (k, v) in m {
                        let val = nervusdb_query::executor::convert_api_property_to_value(&v);
                        let (tvv, c) = tv(&val);
                        props.push(json!([k, tvv, c]));
                    }
                }
                rels.push(json!({"src": e.src, "type": t, "tcp": cps(&t), "dst": e.dst, "props": props, "dead": false}));
            }
        }
        let mut inn = Vec::new();
        for &n in &ids {
            for e in snap.incoming_neighbors(n, None) {
                let t = snap.resolve_rel_type_name(e.rel).unwrap_or_else(|| format!("#{}", e.rel));
                inn.push(json!([e.src, t, e.dst]));
            }
        }
        json!({"nodes": nodes, "rels": rels, "inn": inn})
    }));
    r.unwrap_or_else(|_| json!({"panic": true}))
}

fn pv_of(v: &Value) -> nervusdb_api::PropertyValue {
    use nervusdb_api::PropertyValue as PV;
    match v {
        Value::Null => PV::Null,
        Value::Bool(b) => PV::Bool(*b),
        Value::Int(i) => PV::Int(*i),
        Value::Float(f) => PV::Float(*f),
        Value::String(s) => PV::String(s.clone()),
        Value::List(l) => PV::List(l.iter().map(pv_of).collect()),
        Value::Map(m) => PV::Map(m.iter().map(|(k, v)| (k.clone(), pv_of(v))).collect()),
        other => panic!("unsupported property value {other:?}"),
    }
}

/// Builds the database at `path` from {"nodes":[{ext,label,props:{k:param}}],"edges":[{src,type,dst,props}]}
/// with the bulk loader ("bulk") or through write transactions ("txn").  Returns the input echoed in
/// tagged-value form and the outcome.
fn build_bulk(path: &Path, b: &J, mode: &str) -> (J, String) {
    use nervusdb_core::{BulkEdge, BulkNode};
    let mut nodes = Vec::new();
    let mut edges = Vec::new();
    let mut echo_nodes = Vec::new();
    let mut echo_edges = Vec::new();
    let props_of = |o: &J| -> (BTreeMap<String, nervusdb_api::PropertyValue>, Vec<J>) {
        let mut m = BTreeMap::new();
        let mut e = Vec::new();
        if let Some(obj) = o.as_object() {
            for (k, v) in obj {
                let val = value_from_param(v);
                e.push(json!([k, tv(&val).0]));
                m.insert(k.clone(), pv_of(&val));
            }
        }
        (m, e)
    };
    for n in b["nodes"].as_array().cloned().unwrap_or_default() {
        let (m, e) = props_of(&n["props"]);
        let ext = n["ext"].as_u64().unwrap();
        let label = n["label"].as_str().unwrap_or("").to_string();
        echo_nodes.push(json!({"ext": ext, "label": label, "props": e}));
        nodes.push(BulkNode { external_id: ext, label, properties: m });
    }
    for ed in b["edges"].as_array().cloned().unwrap_or_default() {
        let (m, e) = props_of(&ed["props"]);
        let t = ed["type"].as_str().unwrap_or("").to_string();
        echo_edges.push(json!({"src": ed["src"], "type": t, "tcp": cps(&t), "dst": ed["dst"], "props": e}));
        edges.push(BulkEdge { src_external_id: ed["src"].as_u64().unwrap(), rel_type: t, dst_external_id: ed["dst"].as_u64().unwrap(), properties: m });
    }
    let echo = json!({"nodes": echo_nodes, "edges": echo_edges});
    let r = catch_unwind(AssertUnwindSafe(|| -> Result<(), String> {
        if mode == "bulk" {
            nervusdb_core::bulkload(path, nodes, edges).map_err(|e| e.to_string())
        } else {
            let db = Db::open(path).map_err(|e| e.to_string())?;
            let mut ids: BTreeMap<u64, u32> = BTreeMap::new();
            // several transactions, so that the data is spread over runs
            for chunk in nodes.chunks(3) {
                let mut tx = db.begin_write();
                for n in chunk {
                    let l = tx.get_or_create_label(&n.label).map_err(|e| e.to_string())?;
                    let id = tx.create_node(n.external_id, l).map_err(|e| e.to_string())?;
                    ids.insert(n.external_id, id);
                    for (k, v) in &n.properties {
                        tx.set_node_property(id, k.clone(), v.clone()).map_err(|e| e.to_string())?;
                    }
                }
                tx.commit().map_err(|e| e.to_string())?;
            }
            for chunk in edges.chunks(4) {
                let mut tx = db.begin_write();
                for e in chunk {
                    let r = tx.get_or_create_rel_type(&e.rel_type).map_err(|e| e.to_string())?;
                    let (s, d) = (ids[&e.src_external_id], ids[&e.dst_external_id]);
                    tx.create_edge(s, r, d);
                    for (k, v) in &e.properties {
                        tx.set_edge_property(s, r, d, k.clone(), v.clone()).map_err(|e| e.to_string())?;
                    }
                }
                tx.commit().map_err(|e| e.to_string())?;
            }
            drop(db);
            Ok(())
        }
    }));
    let res = match r {
        Ok(Ok(())) => "ok".to_string(),
        Ok(Err(e)) => format!("err:{e}"),
        Err(_) => "panic".to_string(),
    };
    (echo, res)
}

pub fn run_sessions(sessions: &[J], out: &mut dyn Write, scratch: &Path) -> J {
    let mut n_cases = 0u64;
    let mut n_err = 0u64;
    let mut n_rows = 0u64;
    for s in sessions {
        let sid = s["id"].as_str().unwrap_or("s").to_string();
        let dir = scratch.join("cy");
        let _ = std::fs::remove_dir_all(&dir);
        std::fs::create_dir_all(&dir).unwrap();
        // C30: the session's database is produced by the bulk loader, or by committing the same
        // nodes and relationships through write transactions
        let mut bulk_echo = J::Null;
        if let Some(b) = s.get("bulk") {
            let (echo, res) = build_bulk(&dir.join("g"), b, s["bulk_mode"].as_str().unwrap_or("bulk"));
            bulk_echo = json!({"echo": echo, "res": res, "mode": s["bulk_mode"]});
        }
        let mut db = match Db::open(dir.join("g")) {
            Ok(d) => d,
            Err(e) => {
                writeln!(out, "{}", json!({"ev": "session", "sid": sid, "open": e.to_string()})).unwrap();
                continue;
            }
        };
        let mut setup_res = Vec::new();
        if let Some(st) = s.get("setup").and_then(|x| x.as_array()) {
            for stmt in st {
                let (q, pj) = if let Some(q) = stmt.as_str() { (q.to_string(), json!({})) } else {
                    (stmt["query"].as_str().unwrap().to_string(), stmt.clone())
                };
                if q == "#compact" {
                    setup_res.push(json!(match db.compact() { Ok(()) => "ok".to_string(), Err(e) => e.to_string() }));
                    continue;
                }
                if let Some(rest) = q.strip_prefix("#index ") {
                    let mut it = rest.split_whitespace();
                    let (l, k) = (it.next().unwrap_or(""), it.next().unwrap_or(""));
                    setup_res.push(json!(match db.create_index(l, k) { Ok(()) => "ok".to_string(), Err(e) => e.to_string() }));
                    continue;
                }
                let (p, _) = build_params(&pj);
                let o = run_write(&db, &q, &p);
                setup_res.push(json!(if o.out == "rows" { "ok".to_string() } else { format!("{}:{}", o.out, o.err) }));
            }
        }
        let mut sev = json!({"ev": "session", "sid": sid, "open": "ok", "setup": setup_res});
        if s.get("dump").and_then(|x| x.as_bool()).unwrap_or(false) {
            sev["graph"] = graph_dump(&db);
        }
        if let Some(m) = s.get("meta") {
            sev["meta"] = m.clone();
        }
        if !bulk_echo.is_null() {
            sev["bulk"] = bulk_echo.clone();
        }
        writeln!(out, "{}", sev).unwrap();
        for c in s["cases"].as_array().cloned().unwrap_or_default() {
            let (p, echo) = build_params(&c);
            let q = c["query"].as_str().unwrap_or("");
            let mode = c["mode"].as_str().unwrap_or("read");
            learn_rel_names(&db);
            // C32: a scripted clock for the external ids of the nodes this statement creates
            let scripted_clock = c.get("clock").and_then(|x| x.as_array()).map(|a| a.iter().map(|t| t.as_u64().unwrap()).collect::<Vec<u64>>());
            if let (Some(cl), Some(obs)) = (&scripted_clock, crate::obs::GLOBAL.get()) {
                *obs.clock.lock().unwrap() = Some(cl.clone());
                obs.clock_log.lock().unwrap().clear();
            }
            let o = if mode == "admin" {
                let r: Result<(), String> = if q == "#compact" {
                    db.compact().map_err(|e| e.to_string())
                } else if q == "#checkpoint" {
                    db.checkpoint().map_err(|e| e.to_string())
                } else if let Some(rest) = q.strip_prefix("#index ") {
                    let mut it = rest.split_whitespace();
                    let (l, k) = (it.next().unwrap_or(""), it.next().unwrap_or(""));
                    db.create_index(l, k).map_err(|e| e.to_string())
                } else if q == "#reopen" || q == "#close-reopen" {
                    // replace the handle: drop (or close) the old one first
                    let path = dir.join("g");
                    let tmp = std::mem::replace(&mut db, Db::open(scratch.join("cy-tmp")).expect("tmp db"));
                    let cr = if q == "#close-reopen" { tmp.close().map_err(|e| e.to_string()) } else { drop(tmp); Ok(()) };
                    match Db::open(&path) {
                        Ok(d) => {
                            db = d;
                            let _ = std::fs::remove_dir_all(scratch.join("cy-tmp"));
                            cr
                        }
                        Err(e) => Err(format!("reopen failed: {e}")),
                    }
                } else {
                    Err(format!("unknown admin op {q}"))
                };
                match r {
                    Ok(()) => Outcome { out: "rows", cols: vec![], rows: vec![], err: String::new(), count: 0, ms: 0 },
                    Err(e) => Outcome { out: "err", cols: vec![], rows: vec![], err: e, count: 0, ms: 0 },
                }
            } else if mode == "write" { run_write(&db, q, &p) } else { run_read(&db, q, &p) };
            n_cases += 1;
            if o.out != "rows" {
                n_err += 1;
            }
            n_rows += o.rows.len() as u64;
            let mut ev = json!({"ev": "case", "sid": sid, "cid": c["cid"], "kind": c["kind"], "mode": mode,
                                "query": q, "params": echo, "meta": c.get("meta").cloned().unwrap_or(json!({})),
                                "res": o.to_json()});
            if let (Some(_), Some(obs)) = (&scripted_clock, crate::obs::GLOBAL.get()) {
                *obs.clock.lock().unwrap() = None;
                let log: Vec<J> = obs.clock_log.lock().unwrap().iter().map(|(c, t)| json!([c, t])).collect();
                ev["clock_reads"] = J::Array(log);
            }
            if let Some(qs) = c.get("queries").and_then(|x| x.as_array()) {
                let mut rq = Vec::new();
                for q2 in qs {
                    let o2 = run_read(&db, q2.as_str().unwrap_or(""), &p);
                    rq.push(o2.to_json());
                }
                ev["resq"] = J::Array(rq);
            }
            if let Some(ol) = c.get("options_list").and_then(|x| x.as_array()) {
                let mut rl = Vec::new();
                for o in ol {
                    let mut c2 = c.clone();
                    c2["options"] = o.clone();
                    let (p2, _) = build_params(&c2);
                    let o2 = run_read(&db, q, &p2);
                    let mut j = o2.to_json();
                    j["options"] = o.clone();
                    j["limit_err"] = parse_limit_err(&o2.err);
                    rl.push(j);
                }
                ev["resl"] = J::Array(rl);
            }
            if c.get("dump").and_then(|x| x.as_bool()).unwrap_or(false) {
                ev["graph"] = graph_dump(&db);
            }
            writeln!(out, "{}", ev).unwrap();
        }
        drop(db);
        let _ = std::fs::remove_dir_all(&dir);
    }
    json!({"sessions": sessions.len(), "cases": n_cases, "errors": n_err, "rows": n_rows})
}


/// C27: encode_ordered_value of lists of real values.  Input lines: {"id", "vals": [param syntax | {"blob":[bytes]}]}.
pub fn run_keys(inputs: &[J], out: &mut dyn Write) -> J {
    use nervusdb_api::PropertyValue as PV;
    let mut n = 0u64;
    for inp in inputs {
        let mut vals = Vec::new();
        let mut encs = Vec::new();
        let mut fords: Vec<J> = Vec::new();
        for v in inp["vals"].as_array().cloned().unwrap_or_default() {
            let (pv, t) = if let Some(b) = v.get("blob") {
                let bytes: Vec<u8> = b.as_array().unwrap().iter().map(|x| x.as_u64().unwrap() as u8).collect();
                (PV::Blob(bytes.clone()), json!(["blob", bytes]))
            } else {
                let val = value_from_param(&v);
                let pv = match &val {
                    Value::Null => PV::Null,
                    Value::Bool(b) => PV::Bool(*b),
                    Value::Int(i) => PV::Int(*i),
                    Value::Float(f) => PV::Float(*f),
                    Value::String(s) => PV::String(s.clone()),
                    other => panic!("keys: unsupported value {other:?}"),
                };
                (pv, tv(&val).0)
            };
            let enc = nervusdb_storage::index::ordered_key::encode_ordered_value(&pv);
            vals.push(t);
            encs.push(json!(enc));
            // for floats: sign and magnitude bits in three 21-bit limbs (most significant first), so that the specification can
            // order numbers outside its exact range by their IEEE representation; both zeros are [0, 0, 0, 0]
            fords.push(match &pv {
                PV::Float(f) if !f.is_nan() => {
                    let bits = f.to_bits();
                    let mag = bits & 0x7fff_ffff_ffff_ffff;
                    let sign: i64 = if mag == 0 { 0 } else if bits >> 63 == 1 { -1 } else { 1 };
                    json!([sign, (mag >> 42) & 0x1f_ffff, (mag >> 21) & 0x1f_ffff, mag & 0x1f_ffff])
                }
                _ => json!([0, 0, 0, 0]),
            });
            n += 1;
        }
        writeln!(out, "{}", json!({"ev": "keys", "id": inp["id"], "vals": vals, "enc": encs, "ford": fords})).unwrap();
    }
    json!({"lists": inputs.len(), "values": n})
}
