//! Thin safe wrapper over the public C ABI (`nervusdb-capi`), used by the drivers that must go
//! through the entry points the Python / Node bindings use.

use nervusdb as c;
use serde_json::{Value as J, json};
use std::ffi::{CStr, CString};
use std::os::raw::c_char;

pub struct CDb(pub *mut c::ndb_db_t);
unsafe impl Send for CDb {}
unsafe impl Sync for CDb {}
pub struct CTxn(pub *mut c::ndb_txn_t);

fn last_error() -> J {
    let mut buf = vec![0u8; 2048];
    let n = c::ndb_last_error_message(buf.as_mut_ptr() as *mut c_char, buf.len());
    let msg = String::from_utf8_lossy(&buf[..n.min(buf.len() - 1)]).to_string();
    json!({"code": c::ndb_last_error_code(), "category": c::ndb_last_error_category(), "message": msg})
}

fn status(rc: i32) -> J {
    if rc == c::NDB_OK { json!({"rc": 0, "category": 0, "message": ""}) } else {
        let e = last_error();
        json!({"rc": rc, "category": e["category"], "message": e["message"]})
    }
}

impl CDb {
    pub fn open(path: &str) -> Result<CDb, J> {
        let p = CString::new(path).unwrap();
        let mut out: *mut c::ndb_db_t = std::ptr::null_mut();
        let rc = c::ndb_open(p.as_ptr(), &mut out);
        if rc == c::NDB_OK { Ok(CDb(out)) } else { Err(status(rc)) }
    }
    pub fn close(self) -> J {
        status(c::ndb_close(self.0))
    }
    /// ndb_execute_write: returns {rc, category, message, count}
    pub fn execute_write(&self, cypher: &str, params: &J) -> J {
        let q = CString::new(cypher).unwrap();
        let p = CString::new(params.to_string()).unwrap();
        let mut count: u32 = 0;
        let rc = c::ndb_execute_write(self.0, q.as_ptr(), p.as_ptr(), &mut count);
        let mut s = status(rc);
        s["count"] = json!(count);
        s
    }
    /// ndb_query: returns {rc, category, message, rows: <json array>}
    pub fn query(&self, cypher: &str, params: &J) -> J {
        let q = CString::new(cypher).unwrap();
        let p = CString::new(params.to_string()).unwrap();
        let mut res: *mut c::ndb_result_t = std::ptr::null_mut();
        let rc = c::ndb_query(self.0, q.as_ptr(), p.as_ptr(), &mut res);
        let mut s = status(rc);
        if rc == c::NDB_OK {
            let mut txt: *mut c_char = std::ptr::null_mut();
            let rc2 = c::ndb_result_to_json(res, &mut txt);
            if rc2 == c::NDB_OK {
                let t = unsafe { CStr::from_ptr(txt) }.to_string_lossy().to_string();
                s["rows"] = serde_json::from_str(&t).unwrap_or(json!(null));
                c::ndb_string_free(txt);
            } else {
                s = status(rc2);
            }
            c::ndb_result_free(res);
        }
        s
    }
    pub fn begin(&self) -> Result<CTxn, J> {
        let mut out: *mut c::ndb_txn_t = std::ptr::null_mut();
        let rc = c::ndb_begin_write(self.0, &mut out);
        if rc == c::NDB_OK { Ok(CTxn(out)) } else { Err(status(rc)) }
    }
}

impl CTxn {
    pub fn query(&self, cypher: &str, params: &J) -> J {
        let q = CString::new(cypher).unwrap();
        let p = CString::new(params.to_string()).unwrap();
        status(c::ndb_txn_query(self.0, q.as_ptr(), p.as_ptr()))
    }
    pub fn commit(self) -> J {
        status(c::ndb_txn_commit(self.0))
    }
    pub fn rollback(self) -> J {
        status(c::ndb_txn_rollback(self.0))
    }
}
