//! Logical dump of a database through every storage-level read interface.
//! The dumper contains no expected values: it only records what the real
//! code returns.  A panic inside a read is caught and logged in `errs`.

use crate::val::to_tag;
use nervusdb_core::{Db, EdgeKey, GraphSnapshot, GraphStore, InternalNodeId};
use nervusdb_storage::engine::GraphEngine;
use serde_json::{Value, json};
use std::collections::{BTreeMap, BTreeSet};
use std::panic::{AssertUnwindSafe, catch_unwind};

fn guarded<T>(errs: &mut Vec<String>, what: String, f: impl FnOnce() -> T) -> Option<T> {
    match catch_unwind(AssertUnwindSafe(f)) {
        Ok(v) => Some(v),
        Err(_) => {
            errs.push(format!("panic:{what}"));
            None
        }
    }
}

fn count_edges(edges: Vec<EdgeKey>) -> BTreeMap<(u32, u32, u32), u64> {
    let mut m = BTreeMap::new();
    for e in edges {
        *m.entry((e.src, e.rel, e.dst)).or_insert(0u64) += 1;
    }
    m
}

pub fn dump_snapshot<S: GraphSnapshot>(
    snap: &S,
    lookup_e2i: &dyn Fn(u64) -> Option<InternalNodeId>,
    key_pool: &[String],
) -> Value {
    let mut errs: Vec<String> = Vec::new();
    let nodes: Vec<InternalNodeId> =
        guarded(&mut errs, "nodes".into(), || snap.nodes().collect()).unwrap_or_default();

    let rel_name = |errs: &mut Vec<String>, r: u32| -> String {
        guarded(errs, format!("rel_name:{r}"), || snap.resolve_rel_type_name(r))
            .flatten()
            .unwrap_or_else(|| format!("#{r}"))
    };

    let mut ext = Vec::new();
    let mut e2i = Vec::new();
    let mut lab = Vec::new();
    let mut np1 = Vec::new();
    let mut npm = Vec::new();
    let mut out = Vec::new();
    let mut outt = Vec::new();
    let mut inn = Vec::new();
    let mut innt = Vec::new();
    let mut ep1 = Vec::new();
    let mut epm = Vec::new();

    let mut rel_ids: BTreeSet<u32> = BTreeSet::new();
    let mut out_any: BTreeMap<u32, BTreeMap<(u32, u32, u32), u64>> = BTreeMap::new();
    let mut in_any: BTreeMap<u32, BTreeMap<(u32, u32, u32), u64>> = BTreeMap::new();

    for &n in &nodes {
        if let Some(Some(x)) = guarded(&mut errs, format!("ext:{n}"), || snap.resolve_external(n)) {
            ext.push(json!([n, x.to_string()]));
            if let Some(Some(i)) = guarded(&mut errs, format!("e2i:{x}"), || lookup_e2i(x)) {
                e2i.push(json!([x.to_string(), i]));
            }
        }
        if let Some(Some(ls)) =
            guarded(&mut errs, format!("labels:{n}"), || snap.resolve_node_labels(n))
        {
            for l in ls {
                if l == u32::MAX {
                    continue;
                }
                let name = guarded(&mut errs, format!("label_name:{l}"), || {
                    snap.resolve_label_name(l)
                })
                .flatten()
                .unwrap_or_else(|| format!("#{l}"));
                lab.push(json!([n, name]));
            }
        }
        let mut keys: BTreeSet<String> = key_pool.iter().cloned().collect();
        if let Some(Some(m)) = guarded(&mut errs, format!("npm:{n}"), || snap.node_properties(n)) {
            for (k, v) in m {
                npm.push(json!([n, k, to_tag(&v)]));
                keys.insert(k);
            }
        }
        for k in &keys {
            if let Some(Some(v)) =
                guarded(&mut errs, format!("np1:{n}:{k}"), || snap.node_property(n, k))
            {
                np1.push(json!([n, k, to_tag(&v)]));
            }
        }
        if let Some(es) = guarded(&mut errs, format!("out:{n}"), || {
            snap.neighbors(n, None).collect::<Vec<_>>()
        }) {
            let c = count_edges(es);
            for (s, r, d) in c.keys() {
                let _ = (s, d);
                rel_ids.insert(*r);
            }
            out_any.insert(n, c);
        }
        if let Some(es) = guarded(&mut errs, format!("in:{n}"), || {
            snap.incoming_neighbors(n, None).collect::<Vec<_>>()
        }) {
            let c = count_edges(es);
            for (_, r, _) in c.keys() {
                rel_ids.insert(*r);
            }
            in_any.insert(n, c);
        }
    }

    for (_, c) in &out_any {
        for ((s, r, d), cnt) in c {
            let name = rel_name(&mut errs, *r);
            out.push(json!([s, name, d, cnt]));
            let edge = EdgeKey { src: *s, rel: *r, dst: *d };
            let mut keys: BTreeSet<String> = key_pool.iter().cloned().collect();
            if let Some(Some(m)) =
                guarded(&mut errs, format!("epm:{s}:{r}:{d}"), || snap.edge_properties(edge))
            {
                for (k, v) in m {
                    epm.push(json!([s, name, d, k, to_tag(&v)]));
                    keys.insert(k);
                }
            }
            for k in &keys {
                if let Some(Some(v)) = guarded(&mut errs, format!("ep1:{s}:{r}:{d}:{k}"), || {
                    snap.edge_property(edge, k)
                }) {
                    ep1.push(json!([s, name, d, k, to_tag(&v)]));
                }
            }
        }
    }
    for (_, c) in &in_any {
        for ((s, r, d), cnt) in c {
            let name = rel_name(&mut errs, *r);
            inn.push(json!([s, name, d, cnt]));
        }
    }
    for &n in &nodes {
        for &r in &rel_ids {
            let name = rel_name(&mut errs, r);
            if let Some(es) = guarded(&mut errs, format!("outt:{n}:{r}"), || {
                snap.neighbors(n, Some(r)).collect::<Vec<_>>()
            }) {
                for ((s, r2, d), cnt) in count_edges(es) {
                    let name2 = if r2 == r { name.clone() } else { rel_name(&mut errs, r2) };
                    outt.push(json!([s, name2, d, cnt]));
                }
            }
            if let Some(es) = guarded(&mut errs, format!("innt:{n}:{r}"), || {
                snap.incoming_neighbors(n, Some(r)).collect::<Vec<_>>()
            }) {
                for ((s, r2, d), cnt) in count_edges(es) {
                    let name2 = if r2 == r { name.clone() } else { rel_name(&mut errs, r2) };
                    innt.push(json!([s, name2, d, cnt]));
                }
            }
        }
    }

    // the (estimated) counts the statistics interface answers with: total, per label seen, per relationship type seen
    let mut cnt = Vec::new();
    if let Some(c) = guarded(&mut errs, "node_count".into(), || snap.node_count(None)) { cnt.push(json!(["n", "*", c])); }
    if let Some(c) = guarded(&mut errs, "edge_count".into(), || snap.edge_count(None)) { cnt.push(json!(["e", "*", c])); }
    for &r in &rel_ids {
        let name = rel_name(&mut errs, r);
        if let Some(c) = guarded(&mut errs, format!("edge_count:{r}"), || snap.edge_count(Some(r))) { cnt.push(json!(["e", name, c])); }
    }
    let mut label_ids: BTreeSet<u32> = BTreeSet::new();
    for &n in &nodes {
        if let Some(Some(ls)) = guarded(&mut errs, format!("labels2:{n}"), || snap.resolve_node_labels(n)) {
            for l in ls { if l != u32::MAX { label_ids.insert(l); } }
        }
    }
    for &l in &label_ids {
        let name = guarded(&mut errs, format!("label_name2:{l}"), || snap.resolve_label_name(l)).flatten().unwrap_or_else(|| format!("#{l}"));
        if let Some(c) = guarded(&mut errs, format!("node_count:{l}"), || snap.node_count(Some(l))) { cnt.push(json!(["n", name, c])); }
    }

    json!({
        "cnt": cnt,
        "nodes": nodes.iter().map(|n| json!([n])).collect::<Vec<_>>(),
        "ext": ext, "e2i": e2i, "lab": lab, "np1": np1, "npm": npm,
        "out": out, "outt": outt, "inn": inn, "innt": innt, "ep1": ep1, "epm": epm,
        "errs": errs,
    })
}

pub fn dump_engine(engine: &GraphEngine, key_pool: &[String]) -> Value {
    let snap = engine.snapshot();
    let lookup = |x: u64| -> Option<InternalNodeId> { engine.lookup_internal_id(x) };
    dump_snapshot(&snap, &lookup, key_pool)
}

pub fn dump_db(db: &Db, key_pool: &[String]) -> Value {
    let snap = db.snapshot();
    let lookup = |_x: u64| -> Option<InternalNodeId> { None };
    dump_snapshot(&snap, &lookup, key_pool)
}
