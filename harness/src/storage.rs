//! Storage-level history driver: executes abstract histories against the real
//! `GraphEngine` and records an NDJSON trace (API calls with arguments and
//! results, full logical dumps, crash images opened by the real recovery code,
//! injected I/O faults).  It contains no expected values.

use crate::dump::dump_engine;
use crate::obs::{Image, Obs, write_image};
use crate::val::from_tag;
use nervusdb_storage::engine::GraphEngine;
use serde_json::{Value, json};
use std::collections::BTreeSet;
use std::io::Write;
use std::panic::{AssertUnwindSafe, catch_unwind};
use std::path::{Path, PathBuf};
use std::sync::Arc;

pub struct Ctx {
    pub obs: Arc<Obs>,
    pub out: Box<dyn Write>,
    pub scratch: PathBuf,
    pub mode: String, // plain | crash | fault
    pub extended: bool,
    pub stats: Stats,
}

#[derive(Default, Debug)]
pub struct Stats {
    pub histories: u64,
    pub ops: u64,
    pub dumps: u64,
    pub images: u64,
    pub images_distinct: u64,
    pub faults: u64,
    pub io_steps: u64,
}

impl Ctx {
    pub fn emit(&mut self, v: Value) {
        writeln!(self.out, "{}", serde_json::to_string(&v).unwrap()).unwrap();
    }
}

fn err_str<E: std::fmt::Display>(e: E) -> String {
    format!("err:{e}")
}

pub fn open_engine(dir: &Path) -> Result<GraphEngine, String> {
    let r = catch_unwind(AssertUnwindSafe(|| {
        GraphEngine::open(dir.join("g.ndb"), dir.join("g.wal"))
    }));
    match r {
        Ok(Ok(e)) => Ok(e),
        Ok(Err(e)) => Err(err_str(e)),
        Err(_) => Err("panic:open".to_string()),
    }
}

fn key_pool(history: &Value) -> Vec<String> {
    let mut s = BTreeSet::new();
    fn walk(v: &Value, s: &mut BTreeSet<String>) {
        if let Some(a) = v.as_array() {
            if let Some(name) = a.first().and_then(|x| x.as_str()) {
                match name {
                    "SetNP" | "RemNP" => {
                        if let Some(k) = a.get(2).and_then(|x| x.as_str()) {
                            s.insert(k.to_string());
                        }
                    }
                    "SetEP" | "RemEP" => {
                        if let Some(k) = a.get(4).and_then(|x| x.as_str()) {
                            s.insert(k.to_string());
                        }
                    }
                    _ => {}
                }
            }
            for x in a {
                walk(x, s);
            }
        } else if let Some(o) = v.as_object() {
            for x in o.values() {
                walk(x, s);
            }
        }
    }
    walk(history, &mut s);
    s.insert("zz".to_string());
    s.into_iter().collect()
}

/// Applies the abstract ops to a write transaction; returns the ids handed out by create_node.
pub fn apply_ops(
    engine: &GraphEngine,
    ops: &[Value],
    commit: bool,
) -> (String, Vec<Value>) {
    let mut created: Vec<Value> = Vec::new();
    let r = catch_unwind(AssertUnwindSafe(|| -> Result<(), String> {
        let mut tx = engine.begin_write();
        for op in ops {
            let a = op.as_array().ok_or("op not array")?;
            let name = a[0].as_str().ok_or("op name")?;
            let u = |i: usize| a[i].as_u64().unwrap() as u32;
            let st = |i: usize| a[i].as_str().unwrap().to_string();
            match name {
                "CreateNode" => {
                    let ext: u64 = a[1].as_str().unwrap().parse().unwrap();
                    let l = st(2);
                    let lid = if l.is_empty() {
                        u32::MAX
                    } else {
                        tx.get_or_create_label(&l).map_err(err_str)?
                    };
                    match tx.create_node(ext, lid) {
                        Ok(id) => created.push(json!(id)),
                        Err(e) => return Err(err_str(e)),
                    }
                }
                "AddLabel" => {
                    let lid = tx.get_or_create_label(&st(2)).map_err(err_str)?;
                    tx.add_node_label(u(1), lid).map_err(err_str)?;
                }
                "RemLabel" => {
                    let lid = tx.get_or_create_label(&st(2)).map_err(err_str)?;
                    tx.remove_node_label(u(1), lid).map_err(err_str)?;
                }
                "CreateEdge" => {
                    let r = tx.get_or_create_rel_type(&st(2)).map_err(err_str)?;
                    tx.create_edge(u(1), r, u(3));
                }
                "DelEdge" => {
                    let r = tx.get_or_create_rel_type(&st(2)).map_err(err_str)?;
                    tx.tombstone_edge(u(1), r, u(3));
                }
                "DelNode" => tx.tombstone_node(u(1)),
                "SetNP" => tx.set_node_property(u(1), st(2), from_tag(&st(3))),
                "RemNP" => tx.remove_node_property(u(1), &st(2)),
                "SetEP" => {
                    let r = tx.get_or_create_rel_type(&st(2)).map_err(err_str)?;
                    tx.set_edge_property(u(1), r, u(3), st(4), from_tag(&st(5)));
                }
                "RemEP" => {
                    let r = tx.get_or_create_rel_type(&st(2)).map_err(err_str)?;
                    tx.remove_edge_property(u(1), r, u(3), &st(4));
                }
                "SetVec" => {
                    let v: Vec<f32> =
                        a[2].as_array().unwrap().iter().map(|x| x.as_f64().unwrap() as f32).collect();
                    tx.set_vector(u(1), v).map_err(err_str)?;
                }
                other => return Err(format!("unknown op {other}")),
            }
        }
        if commit {
            tx.commit().map_err(err_str)?;
        } else {
            drop(tx);
        }
        Ok(())
    }));
    let res = match r {
        Ok(Ok(())) => "ok".to_string(),
        Ok(Err(e)) => e,
        Err(_) => "panic".to_string(),
    };
    (res, created)
}

fn followup_ops(tag: u64) -> Vec<Value> {
    vec![
        json!(["CreateNode", (900_000 + tag).to_string(), "Zf"]),
    ]
}

/// Opens a crash image with the real recovery code, dumps, commits one more
/// transaction, reopens and dumps again.
/// Hostile log tails (C17): bytes appended after / damaged at the end of the log of an image.
pub const TAIL_VARIANTS: [&str; 6] = ["zeros", "garbage", "hugelen", "shortbody", "crcflip", "bitflip"];

fn apply_tail(wal: &mut Vec<u8>, variant: &str, seed: u64) {
    match variant {
        "zeros" => wal.extend(std::iter::repeat(0u8).take(64)),
        "garbage" => {
            let mut x = seed.wrapping_mul(0x9E3779B97F4A7C15) | 1;
            for _ in 0..37 {
                x ^= x << 13;
                x ^= x >> 7;
                x ^= x << 17;
                wal.push((x & 0xff) as u8);
            }
        }
        "hugelen" => {
            wal.extend_from_slice(&0x7fff_fff0u32.to_le_bytes());
            wal.extend_from_slice(&[1, 2, 3, 4, 5, 6, 7, 8, 9]);
        }
        "shortbody" => {
            // a plausible header announcing 40 bytes, followed by only 5
            wal.extend_from_slice(&40u32.to_le_bytes());
            wal.extend_from_slice(&0xdeadbeefu32.to_le_bytes());
            wal.extend_from_slice(&[1, 0, 0, 0, 0]);
        }
        "crcflip" => {
            // a complete, well-formed looking record whose checksum is wrong
            wal.extend_from_slice(&9u32.to_le_bytes());
            wal.extend_from_slice(&0x12345678u32.to_le_bytes());
            wal.extend_from_slice(&[1, 7, 0, 0, 0, 0, 0, 0, 0]);
        }
        "bitflip" => {
            if let Some(b) = wal.last_mut() {
                *b ^= 0x40;
            }
        }
        _ => {}
    }
}

fn evaluate_image(ctx: &mut Ctx, img: &Image, op_idx: usize, op_kind: &str, keys: &[String], seq: u64, tail: Option<&str>) -> Value {
    let dir = ctx.scratch.join("img");
    let mut files = (*img.files).clone();
    if let Some(t) = tail {
        let wal = files.entry("g.wal".to_string()).or_default();
        apply_tail(wal, t, seq);
    }
    write_image(&dir, &files);
    let mut ev = json!({
        "ev": "crash", "op": op_idx, "during": op_kind, "kind": img.kind,
        "step": img.step, "site": img.site,
    });
    if let Some(t) = tail {
        ev["tail"] = json!(t);
    }
    match open_engine(&dir) {
        Err(e) => {
            ev["open"] = json!(e);
        }
        Ok(engine) => {
            ev["open"] = json!("ok");
            ev["d"] = dump_engine(&engine, keys);
            // follow-up transaction: the node id it will get is whatever the engine hands out;
            // SetNP on the new node is expressed relative to it by the monitor.
            let ops = followup_ops(seq);
            let (res, created) = apply_ops(&engine, &ops, true);
            let mut fu = json!({"ops": ops, "res": res, "created": created});
            if res == "ok" {
                fu["d1"] = dump_engine(&engine, keys);
            }
            drop(engine);
            match open_engine(&dir) {
                Err(e) => fu["reopen"] = json!(e),
                Ok(e2) => {
                    fu["reopen"] = json!("ok");
                    fu["d2"] = dump_engine(&e2, keys);
                }
            }
            ev["fu"] = fu;
        }
    }
    let _ = std::fs::remove_dir_all(&dir);
    ev
}

fn hash_files(files: &crate::obs::FileMap) -> u64 {
    use std::hash::{Hash, Hasher};
    let mut h = std::collections::hash_map::DefaultHasher::new();
    files.hash(&mut h);
    h.finish()
}

struct Run<'a> {
    ctx: &'a mut Ctx,
    dir: PathBuf,
    keys: Vec<String>,
    engine: Option<GraphEngine>,
    seen_images: BTreeSet<(usize, &'static str, u64)>,
    img_seq: u64,
}

impl<'a> Run<'a> {
    fn dump(&mut self, after: &str) {
        if let Some(e) = &self.engine {
            let d = dump_engine(e, &self.keys);
            self.ctx.stats.dumps += 1;
            self.ctx.emit(json!({"ev": "dump", "after": after, "d": d}));
        }
    }

    fn flush_images(&mut self, op_idx: usize, op_kind: &str) {
        if self.ctx.mode != "crash" && self.ctx.mode != "tails" {
            return;
        }
        let images = self.ctx.obs.take_images();
        // evaluation itself must not be observed
        let saved_dir = self.ctx.obs.io.lock().unwrap().dir.take();
        for img in images {
            self.ctx.stats.images += 1;
            let h = hash_files(&img.files);
            if !self.seen_images.insert((op_idx, img.kind, h)) {
                continue;
            }
            self.ctx.stats.images_distinct += 1;
            self.img_seq += 1;
            let keys = self.keys.clone();
            if self.ctx.mode == "tails" {
                // only process-death images (the log as written so far) get hostile tails
                if img.kind != "process" || !img.files.contains_key("g.wal") {
                    continue;
                }
                for t in TAIL_VARIANTS {
                    // damaging the last record is only a crash artefact while that record belongs
                    // to a transaction that is still being appended
                    if t == "bitflip" && !img.site.starts_with("wal.append") {
                        continue;
                    }
                    self.img_seq += 1;
                    let ev = evaluate_image(self.ctx, &img, op_idx, op_kind, &keys, self.img_seq, Some(t));
                    self.ctx.emit(ev);
                }
                continue;
            }
            let ev = evaluate_image(self.ctx, &img, op_idx, op_kind, &keys, self.img_seq, None);
            self.ctx.emit(ev);
        }
        self.ctx.obs.io.lock().unwrap().dir = saved_dir;
    }

    /// Executes one history operation; returns false if the history cannot continue.
    fn exec(&mut self, idx: usize, op: &Value) -> bool {
        let kind = op["op"].as_str().unwrap_or("").to_string();
        self.ctx.stats.ops += 1;
        let step0 = self.ctx.obs.step();
        let mut cont = true;
        match kind.as_str() {
            "tx" | "abort" => {
                let ops = op["ops"].as_array().cloned().unwrap_or_default();
                let Some(engine) = &self.engine else { return false };
                let (res, created) = apply_ops(engine, &ops, kind == "tx");
                let step1 = self.ctx.obs.step();
                self.ctx.emit(json!({"ev": kind, "i": idx, "ops": ops, "res": res, "created": created, "io": [step0, step1]}));
                if res.starts_with("panic") {
                    cont = false;
                }
            }
            "compact" | "checkpoint" => {
                let Some(engine) = &self.engine else { return false };
                let r = catch_unwind(AssertUnwindSafe(|| engine.compact()));
                let res = match r {
                    Ok(Ok(())) => "ok".to_string(),
                    Ok(Err(e)) => err_str(e),
                    Err(_) => {
                        cont = false;
                        "panic".to_string()
                    }
                };
                let step1 = self.ctx.obs.step();
                self.ctx.emit(json!({"ev": kind, "i": idx, "res": res, "io": [step0, step1]}));
            }
            "create_index" => {
                let Some(engine) = &self.engine else { return false };
                let l = op["label"].as_str().unwrap();
                let k = op["key"].as_str().unwrap();
                let res = match engine.create_index(l, k) {
                    Ok(()) => "ok".to_string(),
                    Err(e) => err_str(e),
                };
                self.ctx.emit(json!({"ev": "create_index", "i": idx, "label": l, "key": k, "res": res}));
            }
            "reopen" => {
                let how = op["how"].as_str().unwrap_or("drop").to_string();
                let mut close_res = "ok".to_string();
                if let Some(engine) = self.engine.take() {
                    if how == "close" {
                        let r = catch_unwind(AssertUnwindSafe(|| engine.checkpoint_on_close()));
                        close_res = match r {
                            Ok(Ok(())) => "ok".to_string(),
                            Ok(Err(e)) => err_str(e),
                            Err(_) => "panic".to_string(),
                        };
                    }
                    drop(engine);
                }
                let res = match open_engine(&self.dir) {
                    Ok(e) => {
                        self.engine = Some(e);
                        "ok".to_string()
                    }
                    Err(e) => {
                        cont = false;
                        e
                    }
                };
                let step1 = self.ctx.obs.step();
                self.ctx.emit(json!({"ev": "reopen", "i": idx, "how": how, "close_res": close_res, "res": res, "io": [step0, step1]}));
            }
            "vacuum" => {
                // close, vacuum the files, reopen
                let mut close_res = "ok".to_string();
                if let Some(engine) = self.engine.take() {
                    close_res = match engine.checkpoint_on_close() {
                        Ok(()) => "ok".to_string(),
                        Err(e) => err_str(e),
                    };
                    drop(engine);
                }
                let dir = self.dir.clone();
                let r = catch_unwind(AssertUnwindSafe(|| {
                    nervusdb_storage::vacuum::vacuum_in_place(dir.join("g.ndb"), dir.join("g.wal"))
                }));
                let vres = match r {
                    Ok(Ok(_)) => "ok".to_string(),
                    Ok(Err(e)) => err_str(e),
                    Err(_) => "panic".to_string(),
                };
                let res = match open_engine(&self.dir) {
                    Ok(e) => {
                        self.engine = Some(e);
                        "ok".to_string()
                    }
                    Err(e) => {
                        cont = false;
                        e
                    }
                };
                let step1 = self.ctx.obs.step();
                self.ctx.emit(json!({"ev": "vacuum", "i": idx, "close_res": close_res, "vacuum_res": vres, "res": res, "io": [step0, step1]}));
            }
            other => {
                self.ctx.emit(json!({"ev": "skip", "i": idx, "what": other}));
            }
        }
        if cont {
            self.dump(&kind);
        }
        self.flush_images(idx, &kind);
        cont
    }
}

fn fresh_dir(scratch: &Path, name: &str) -> PathBuf {
    let d = scratch.join(name);
    let _ = std::fs::remove_dir_all(&d);
    std::fs::create_dir_all(&d).unwrap();
    d
}

pub fn run_history(ctx: &mut Ctx, history: &Value) {
    let id = history["id"].as_str().unwrap_or("h").to_string();
    let ops = history["ops"].as_array().cloned().unwrap_or_default();
    let keys = key_pool(history);
    ctx.stats.histories += 1;

    if ctx.mode == "fault" {
        run_history_faults(ctx, &id, &ops, &keys);
        return;
    }

    let dir = fresh_dir(&ctx.scratch.clone(), "db");
    ctx.obs.start_io(&dir, ctx.mode == "crash" || ctx.mode == "tails");
    ctx.emit(json!({"ev": "reset", "id": id, "mode": ctx.mode}));
    let engine = open_engine(&dir);
    let mut run = Run {
        ctx,
        dir: dir.clone(),
        keys,
        engine: None,
        seen_images: BTreeSet::new(),
        img_seq: 0,
    };
    match engine {
        Ok(e) => {
            run.engine = Some(e);
            run.ctx.emit(json!({"ev": "open", "res": "ok"}));
            run.dump("open");
            run.flush_images(0, "open");
            for (i, op) in ops.iter().enumerate() {
                if !run.exec(i + 1, op) {
                    break;
                }
            }
        }
        Err(e) => run.ctx.emit(json!({"ev": "open", "res": e})),
    }
    let steps = run.ctx.obs.step();
    run.ctx.stats.io_steps += steps;
    drop(run.engine.take());
    ctx.obs.stop_io();
    let _ = std::fs::remove_dir_all(&dir);
}

/// Fault mode: for every operation o of the history and every I/O step k of o, rerun the
/// prefix on a fresh database, fail step k of o once, and record what the code did.
fn run_history_faults(ctx: &mut Ctx, id: &str, ops: &[Value], keys: &[String]) {
    // pass 0: count the I/O steps of every operation
    let dir = fresh_dir(&ctx.scratch.clone(), "db");
    ctx.obs.start_io(&dir, false);
    let mut bounds: Vec<(u64, u64)> = Vec::new();
    {
        let mut sink = Ctx {
            obs: ctx.obs.clone(),
            out: Box::new(std::io::sink()),
            scratch: ctx.scratch.clone(),
            mode: "plain".into(),
            extended: false,
            stats: Stats::default(),
        };
        let mut run = Run {
            ctx: &mut sink,
            dir: dir.clone(),
            keys: keys.to_vec(),
            engine: open_engine(&dir).ok(),
            seen_images: BTreeSet::new(),
            img_seq: 0,
        };
        for (i, op) in ops.iter().enumerate() {
            let s0 = run.ctx.obs.step();
            let ok = run.exec(i + 1, op);
            let s1 = run.ctx.obs.step();
            bounds.push((s0, s1));
            if !ok {
                break;
            }
        }
    }
    ctx.obs.stop_io();

    for (oi, (s0, s1)) in bounds.iter().enumerate() {
        let kind = ops[oi]["op"].as_str().unwrap_or("");
        if !matches!(kind, "tx" | "compact" | "checkpoint" | "reopen") {
            continue;
        }
        for k in (s0 + 1)..=*s1 {
            let dir = fresh_dir(&ctx.scratch.clone(), "db");
            ctx.obs.start_io(&dir, false);
            ctx.emit(json!({"ev": "reset", "id": format!("{id}/f{}@{k}", oi + 1), "mode": "fault"}));
            ctx.stats.faults += 1;
            let mut run = Run {
                ctx,
                dir: dir.clone(),
                keys: keys.to_vec(),
                engine: None,
                seen_images: BTreeSet::new(),
                img_seq: 0,
            };
            match open_engine(&dir) {
                Ok(e) => run.engine = Some(e),
                Err(e) => {
                    run.ctx.emit(json!({"ev": "open", "res": e}));
                    continue;
                }
            }
            run.ctx.emit(json!({"ev": "open", "res": "ok"}));
            let mut alive = true;
            for (i, op) in ops.iter().enumerate().take(oi) {
                if !run.exec(i + 1, op) {
                    alive = false;
                    break;
                }
            }
            if !alive {
                continue;
            }
            // arm the fault and run the operation
            run.ctx.obs.io.lock().unwrap().fault_at = Some(k);
            let cont = run.exec_faulted(oi + 1, &ops[oi]);
            let fired = run.ctx.obs.io.lock().unwrap().fault_fired.take();
            run.ctx.obs.io.lock().unwrap().fault_at = None;
            let site = fired.as_ref().map(|e| e.site).unwrap_or("none");
            let fkind = fired.as_ref().map(|e| e.kind).unwrap_or("none");
            run.ctx.emit(json!({"ev": "fault_info", "step": k, "site": site, "kind": fkind, "fired": fired.is_some()}));
            if cont {
                // one more transaction, then drop + reopen + dump
                if run.engine.is_some() {
                    let ops2 = followup_ops(k);
                    let (res, created) = apply_ops(run.engine.as_ref().unwrap(), &ops2, true);
                    run.ctx.emit(json!({"ev": "tx", "i": 9999, "ops": ops2, "res": res, "created": created, "followup": true}));
                    run.dump("tx");
                }
                run.exec(10000, &json!({"op": "reopen", "how": "drop"}));
            }
            drop(run.engine.take());
            ctx.obs.stop_io();
            let _ = std::fs::remove_dir_all(&dir);
        }
    }
    let _ = std::fs::remove_dir_all(&dir);
}

impl<'a> Run<'a> {
    /// Like exec, but the operation is expected to fail; the trace event carries "faulted".
    fn exec_faulted(&mut self, idx: usize, op: &Value) -> bool {
        let mut op2 = op.clone();
        op2["faulted"] = json!(true);
        // emit a marker so the monitor knows the next operation ran under an injected fault
        self.ctx.emit(json!({"ev": "fault_begin", "i": idx}));
        self.exec(idx, &op2)
    }
}
