//! Drivers that force interleavings through the schedule points (`verif_hooks::sched`).
//!
//! Every thread that takes part parks at each schedule point; the controller releases one thread
//! at a time and waits until it parks again, finishes, or is found blocked on a lock, so the
//! interleaving is decided, not sampled.  A schedule is a string over thread letters.
//!
//! `snap`  (C03): one writer operation (commit / compaction / index creation) against one reader
//!         that assembles a snapshot, dumps it, and dumps it again after the writer finished.
//! `incr`  (C09): N threads run a read-modify-write statement through ndb_execute_write.

use crate::capi::CDb;
use crate::dump::{dump_engine, dump_snapshot};
use crate::obs::Obs;
use crate::storage::{apply_ops, open_engine};
use nervusdb_api::GraphStore;
use nervusdb_storage::engine::GraphEngine;
use serde_json::{Value as J, json};
use std::collections::BTreeMap;
use std::io::Write;
use std::path::Path;
use std::sync::{Arc, Mutex};
use std::thread::JoinHandle;
use std::time::{Duration, Instant};

const BLOCK_TIMEOUT: Duration = Duration::from_millis(250);

impl Obs {
    fn arrivals(&self, name: &str) -> usize {
        self.sched.lock().unwrap().log.iter().filter(|(n, _)| n == name).count()
    }
    /// Waits until `name` is parked, or `finished()` holds; "blocked" after the timeout.
    fn wait_parked(&self, name: &str, min_arrivals: usize, finished: &dyn Fn() -> bool) -> &'static str {
        let t0 = Instant::now();
        loop {
            {
                let s = self.sched.lock().unwrap();
                let arr = s.log.iter().filter(|(n, _)| n == name).count();
                if s.parked.contains_key(name) && arr >= min_arrivals {
                    return "parked";
                }
            }
            if finished() {
                return "done";
            }
            if t0.elapsed() > BLOCK_TIMEOUT {
                return "blocked";
            }
            std::thread::sleep(Duration::from_micros(200));
        }
    }
    fn release_one(&self, name: &str) {
        let mut s = self.sched.lock().unwrap();
        *s.release.entry(name.to_string()).or_insert(0) += 1;
        self.sched_cv.notify_all();
    }
    pub fn sched_log(&self) -> Vec<(String, &'static str)> {
        self.sched.lock().unwrap().log.clone()
    }
}

/// Runs the threads under the given schedule; afterwards lets everything run to completion.
/// Returns what happened at every token.
fn drive(obs: &Obs, schedule: &str, handles: &[(char, &JoinHandle<()>)]) -> Vec<J> {
    let mut steps = Vec::new();
    for tok in schedule.chars() {
        let Some((_, h)) = handles.iter().find(|(c, _)| *c == tok) else { continue };
        let name = tok.to_string();
        let fin = || h.is_finished();
        let st = obs.wait_parked(&name, 0, &fin);
        if st == "parked" {
            let before = obs.arrivals(&name);
            let at = obs.sched.lock().unwrap().parked.get(&name).copied().unwrap_or("?");
            obs.release_one(&name);
            let st2 = obs.wait_parked(&name, before + 1, &fin);
            steps.push(json!([tok.to_string(), at, st2]));
        } else {
            steps.push(json!([tok.to_string(), "-", st]));
        }
    }
    // free run
    {
        let mut s = obs.sched.lock().unwrap();
        s.enabled = false;
        obs.sched_cv.notify_all();
    }
    steps
}

/// Coarse plans: every entry [thread, point] advances the thread until it is parked at `point`
/// (or finished / blocked on a lock).  This is the granularity of the TLA+ models' actions.
fn drive_plan(obs: &Obs, plan: &[(char, String)], handles: &[(char, &JoinHandle<()>)]) -> Vec<J> {
    let mut steps = Vec::new();
    for (tok, target) in plan {
        let Some((_, h)) = handles.iter().find(|(c, _)| c == tok) else { continue };
        let name = tok.to_string();
        let fin = || h.is_finished();
        let mut first = true;
        let mut last = "-".to_string();
        let status;
        loop {
            let st = obs.wait_parked(&name, 0, &fin);
            if st != "parked" {
                status = st.to_string();
                break;
            }
            let at = obs.sched.lock().unwrap().parked.get(&name).copied().unwrap_or("?");
            last = at.to_string();
            if at == target && !first {
                status = "parked".to_string();
                break;
            }
            first = false;
            let before = obs.arrivals(&name);
            obs.release_one(&name);
            let st2 = obs.wait_parked(&name, before + 1, &fin);
            if st2 != "parked" {
                status = st2.to_string();
                break;
            }
            let at2 = obs.sched.lock().unwrap().parked.get(&name).copied().unwrap_or("?");
            last = at2.to_string();
            if at2 == target {
                status = "parked".to_string();
                break;
            }
        }
        steps.push(json!([name, target, last, status]));
    }
    {
        let mut s = obs.sched.lock().unwrap();
        s.enabled = false;
        obs.sched_cv.notify_all();
    }
    steps
}

fn named<F: FnOnce() + Send + 'static>(name: char, f: F) -> JoinHandle<()> {
    std::thread::Builder::new().name(name.to_string()).spawn(f).unwrap()
}

/// all interleavings of `a` copies of 'W' and `b` copies of 'R' (capped by sampling evenly)
fn interleavings(a: usize, b: usize, cap: usize) -> Vec<String> {
    fn rec(a: usize, b: usize, cur: &mut String, out: &mut Vec<String>) {
        if a == 0 && b == 0 {
            out.push(cur.clone());
            return;
        }
        if a > 0 {
            cur.push('W');
            rec(a - 1, b, cur, out);
            cur.pop();
        }
        if b > 0 {
            cur.push('R');
            rec(a, b - 1, cur, out);
            cur.pop();
        }
    }
    let mut out = Vec::new();
    rec(a, b, &mut String::new(), &mut out);
    if out.len() > cap {
        let step = out.len() as f64 / cap as f64;
        out = (0..cap).map(|i| out[(i as f64 * step) as usize].clone()).collect();
    }
    out
}

fn prepare(dir: &Path, prefix: &[J]) -> Option<GraphEngine> {
    let _ = std::fs::remove_dir_all(dir);
    std::fs::create_dir_all(dir).unwrap();
    let engine = open_engine(dir).ok()?;
    for op in prefix {
        match op["op"].as_str().unwrap_or("") {
            "tx" => {
                let ops = op["ops"].as_array().cloned().unwrap_or_default();
                let _ = apply_ops(&engine, &ops, true);
            }
            "compact" | "checkpoint" => {
                let _ = engine.compact();
            }
            "create_index" => {
                let _ = engine.create_index(op["label"].as_str().unwrap(), op["key"].as_str().unwrap());
            }
            _ => {}
        }
    }
    Some(engine)
}

fn writer_op(engine: &GraphEngine, op: &J) -> String {
    match op["op"].as_str().unwrap_or("") {
        "tx" => apply_ops(engine, &op["ops"].as_array().cloned().unwrap_or_default(), true).0,
        "compact" | "checkpoint" => match engine.compact() {
            Ok(()) => "ok".into(),
            Err(e) => format!("err:{e}"),
        },
        "create_index" => match engine.create_index(op["label"].as_str().unwrap(), op["key"].as_str().unwrap()) {
            Ok(()) => "ok".into(),
            Err(e) => format!("err:{e}"),
        },
        other => format!("unknown:{other}"),
    }
}

pub fn run_snap(obs: &Arc<Obs>, scenarios: &[J], out: &mut dyn Write, scratch: &Path) -> J {
    let mut n_sched = 0u64;
    let mut n_blocked = 0u64;
    for sc in scenarios {
        let id = sc["id"].as_str().unwrap_or("s").to_string();
        let prefix = sc["prefix"].as_array().cloned().unwrap_or_default();
        let wops = sc["writer"].as_array().cloned().unwrap_or_default();
        let keys: Vec<String> = sc["keys"].as_array().map(|a| a.iter().map(|x| x.as_str().unwrap().to_string()).collect())
            .unwrap_or_else(|| vec!["p".into(), "q".into()]);
        let cap = sc["max_schedules"].as_u64().unwrap_or(200) as usize;
        let dir = scratch.join("snapdb");

        // dry run: how many points does each side pass?
        let Some(engine) = prepare(&dir, &prefix) else { continue };
        obs.sched_enable(false);
        let engine = Arc::new(engine);
        let (wn, rn) = {
            obs.sched.lock().unwrap().enabled = true;
            // run alone with unlimited release
            obs.sched.lock().unwrap().release.insert("W".into(), 1_000_000);
            obs.sched.lock().unwrap().release.insert("R".into(), 1_000_000);
            let e2 = engine.clone();
            let w2 = wops.clone();
            let h = named('W', move || {
                for op in &w2 {
                    let _ = writer_op(&e2, op);
                }
            });
            h.join().ok();
            let wn = obs.arrivals("W");
            let e3 = engine.clone();
            let h = named('R', move || {
                let _s = e3.snapshot();
            });
            h.join().ok();
            let rn = obs.arrivals("R");
            obs.sched_enable(false);
            (wn, rn)
        };
        drop(engine);

        let mut schedules = interleavings(wn + 2, rn + 2, cap);
        if sc["long_lived"].as_bool().unwrap_or(false) {
            schedules = vec!["R".repeat(rn + 2) + &"W".repeat(wn + 2)];
        }
        if sc["late_read"].as_bool().unwrap_or(false) {
            // snapshot first (unread), then the whole writer, then the first read
            schedules = vec!["R".repeat(rn + 1) + &"W".repeat(wn + 2) + "RR"];
        }
        for schedule in schedules {
            let Some(engine) = prepare(&dir, &prefix) else { continue };
            let engine = Arc::new(engine);
            let pre = dump_engine(&engine, &keys);
            obs.sched_enable(true);
            let d1: Arc<Mutex<Option<J>>> = Arc::new(Mutex::new(None));
            let d2: Arc<Mutex<Option<J>>> = Arc::new(Mutex::new(None));
            let wres: Arc<Mutex<Vec<String>>> = Arc::new(Mutex::new(Vec::new()));
            let wdone = Arc::new(std::sync::atomic::AtomicBool::new(false));
            let (e_w, w_ops, wres2, wdone2) = (engine.clone(), wops.clone(), wres.clone(), wdone.clone());
            let hw = named('W', move || {
                nervusdb_storage::verif_hooks::sched("thread.start");
                for op in &w_ops {
                    let r = writer_op(&e_w, op);
                    wres2.lock().unwrap().push(r);
                }
                wdone2.store(true, std::sync::atomic::Ordering::SeqCst);
            });
            let late_read = sc["late_read"].as_bool().unwrap_or(false);
            let (e_r, k_r, d1c, d2c, wdone3) = (engine.clone(), keys.clone(), d1.clone(), d2.clone(), wdone.clone());
            let hr = named('R', move || {
                nervusdb_storage::verif_hooks::sched("thread.start");
                let snap = e_r.snapshot();
                if late_read {
                    // the snapshot exists but nothing has been read through it yet
                    nervusdb_storage::verif_hooks::sched("reader.snapshot_taken");
                }
                let none = |_x: u64| -> Option<u32> { None };
                *d1c.lock().unwrap() = Some(dump_snapshot(&snap, &none, &k_r));
                // park here until the schedule is exhausted, then read the same snapshot again once
                // the writer is done
                nervusdb_storage::verif_hooks::sched("reader.d1_done");
                let t0 = Instant::now();
                while !wdone3.load(std::sync::atomic::Ordering::SeqCst) && t0.elapsed() < Duration::from_secs(20) {
                    std::thread::sleep(Duration::from_micros(300));
                }
                *d2c.lock().unwrap() = Some(dump_snapshot(&snap, &none, &k_r));
            });
            let steps = drive(obs, &schedule, &[('W', &hw), ('R', &hr)]);
            hw.join().ok();
            hr.join().ok();
            obs.sched_enable(false);
            let post = dump_engine(&engine, &keys);
            n_sched += 1;
            if steps.iter().any(|s| s[2] == "blocked") {
                n_blocked += 1;
            }
            let ev = json!({"ev": "snap", "id": id, "schedule": schedule, "steps": steps,
                            "writer": wops, "wres": *wres.lock().unwrap(), "late_read": late_read,
                            "pre": pre, "post": post,
                            "d1": d1.lock().unwrap().clone().unwrap_or(json!(null)),
                            "d2": d2.lock().unwrap().clone().unwrap_or(json!(null))});
            writeln!(out, "{}", ev).unwrap();
            drop(engine);
        }
        let _ = std::fs::remove_dir_all(&dir);
    }
    json!({"scenarios": scenarios.len(), "schedules": n_sched, "with_blocked_step": n_blocked})
}

/// C09: threads A, B, .. each run `stmt` through ndb_execute_write under every interleaving of
/// their schedule points; the counter is read before and after through ndb_query.
pub fn run_incr(obs: &Arc<Obs>, scenarios: &[J], out: &mut dyn Write, scratch: &Path) -> J {
    let mut n_sched = 0u64;
    for sc in scenarios {
        let id = sc["id"].as_str().unwrap_or("s").to_string();
        let setup = sc["setup"].as_array().cloned().unwrap_or_default();
        let stmts: Vec<String> = sc["stmts"].as_array().unwrap().iter().map(|x| x.as_str().unwrap().to_string()).collect();
        let probe = sc["probe"].as_str().unwrap_or("MATCH (c:Ctr) RETURN c.v AS v").to_string();
        let cap = sc["max_schedules"].as_u64().unwrap_or(100) as usize;
        let names: Vec<char> = "WRXYZ".chars().take(stmts.len()).collect();
        // every thread passes 2 points (+1 to finish): enumerate interleavings of W^3 R^3 (two threads)
        let _ = cap;
        // plans: [[thread, point], ..] lists (from the AutoCommit model's behaviours)
        let plans: Vec<Vec<(char, String)>> = sc["plans"].as_array().cloned().unwrap_or_default().iter().map(|p| {
            p.as_array().unwrap().iter().map(|e| (e[0].as_str().unwrap().chars().next().unwrap(), e[1].as_str().unwrap().to_string())).collect()
        }).collect();
        for plan in plans {
            let schedule: Vec<J> = plan.iter().map(|(c, p)| json!([c.to_string(), p])).collect();
            let dir = scratch.join("incrdb");
            let _ = std::fs::remove_dir_all(&dir);
            std::fs::create_dir_all(&dir).unwrap();
            let path = dir.join("g").to_string_lossy().to_string();
            let Ok(db) = CDb::open(&path) else { continue };
            let mut setup_res = Vec::new();
            for s in &setup {
                setup_res.push(db.execute_write(s.as_str().unwrap(), &json!({})));
            }
            let before = db.query(&probe, &json!({}));
            let db = Arc::new(db);
            obs.sched_enable(true);
            let results: Arc<Mutex<Vec<(char, J)>>> = Arc::new(Mutex::new(Vec::new()));
            let mut hs = Vec::new();
            for (i, stmt) in stmts.iter().enumerate() {
                let (db2, st, res, nm) = (db.clone(), stmt.clone(), results.clone(), names[i]);
                hs.push((nm, named(nm, move || {
                    nervusdb_storage::verif_hooks::sched("thread.start");
                    let r = db2.execute_write(&st, &json!({}));
                    res.lock().unwrap().push((nm, r));
                })));
            }
            let refs: Vec<(char, &JoinHandle<()>)> = hs.iter().map(|(c, h)| (*c, h)).collect();
            let steps = drive_plan(obs, &plan, &refs);
            for (_, h) in hs {
                h.join().ok();
            }
            obs.sched_enable(false);
            let after = db.query(&probe, &json!({}));
            n_sched += 1;
            let res: Vec<J> = results.lock().unwrap().iter().map(|(c, r)| json!({"thread": c.to_string(), "res": r})).collect();
            writeln!(out, "{}", json!({"ev": "incr", "id": id, "schedule": schedule, "steps": steps, "stmts": stmts,
                                        "setup": setup_res, "before": before, "after": after, "results": res,
                                        "mode": sc["mode"].as_str().unwrap_or("increment")})).unwrap();
            if let Ok(d) = Arc::try_unwrap(db) {
                let _ = d.close();
            }
            let _ = std::fs::remove_dir_all(&dir);
        }
    }
    json!({"scenarios": scenarios.len(), "schedules": n_sched})
}

/// C10: several handles on the same files.  Scenario steps:
///   ["open", h] ["tx", h, ops] ["compact", h] ["close", h] ["drop", h] ["child-open"] (a second process)
/// At the end every handle is dropped, the database reopened and dumped.
enum Handle {
    Engine(GraphEngine),
    Db(nervusdb_core::Db),
}

fn db_tx(db: &nervusdb_core::Db, ops: &[J]) -> String {
    let r = std::panic::catch_unwind(std::panic::AssertUnwindSafe(|| -> Result<(), String> {
        let mut t = db.begin_write();
        for o in ops {
            match o[0].as_str().unwrap_or("") {
                "CreateNode" => {
                    let l = t.get_or_create_label(o[2].as_str().unwrap_or("A")).map_err(|e| format!("err:{e}"))?;
                    t.create_node(o[1].as_str().unwrap().parse().unwrap(), l).map_err(|e| format!("err:{e}"))?;
                }
                "CreateEdge" => {
                    let r = t.get_or_create_rel_type(o[2].as_str().unwrap_or("R")).map_err(|e| format!("err:{e}"))?;
                    t.create_edge(o[1].as_u64().unwrap() as u32, r, o[3].as_u64().unwrap() as u32);
                }
                other => return Err(format!("unsupported:{other}")),
            }
        }
        t.commit().map_err(|e| format!("err:{e}"))
    }));
    match r { Ok(Ok(())) => "ok".into(), Ok(Err(e)) => e, Err(_) => "panic".into() }
}

/// C10: several handles on one database.  `pre` = what lies at the path before the first open; an open step names the
/// way the handle is obtained (engine paths, Db with the base path / the .ndb path / the .wal path, through a symlinked
/// directory).
pub fn run_handles(scenarios: &[J], out: &mut dyn Write, scratch: &Path) -> J {
    use std::collections::BTreeMap;
    let exe = std::env::current_exe().unwrap();
    for sc in scenarios {
        let id = sc["id"].as_str().unwrap_or("s").to_string();
        let dir = scratch.join("handles");
        let link = scratch.join("handles-link");
        let _ = std::fs::remove_dir_all(&dir);
        let _ = std::fs::remove_file(&link);
        std::fs::create_dir_all(&dir).unwrap();
        #[cfg(unix)]
        let _ = std::os::unix::fs::symlink(&dir, &link);
        let mut acked: Vec<J> = Vec::new();
        match sc["pre"].as_str().unwrap_or("none") {
            "empty-ndb" => { std::fs::File::create(dir.join("g.ndb")).unwrap(); }
            "empty-wal" => { std::fs::File::create(dir.join("g.wal")).unwrap(); }
            "both-empty" => { std::fs::File::create(dir.join("g.ndb")).unwrap(); std::fs::File::create(dir.join("g.wal")).unwrap(); }
            "zero-pages" => { std::fs::write(dir.join("g.ndb"), vec![0u8; 2 * nervusdb_storage::PAGE_SIZE]).unwrap(); }
            "closed-db" => {
                if let Ok(e) = open_engine(&dir) {
                    if apply_ops(&e, &[json!(["CreateNode", "100", "Pre"])], true).0 == "ok" { acked.push(json!(["pre", "100"])); }
                    let _ = e.checkpoint_on_close();
                }
            }
            "dropped-db" => {
                if let Ok(e) = open_engine(&dir) {
                    if apply_ops(&e, &[json!(["CreateNode", "100", "Pre"])], true).0 == "ok" { acked.push(json!(["pre", "100"])); }
                }
            }
            _ => {}
        }
        let mut handles: BTreeMap<String, Handle> = BTreeMap::new();
        let mut steps = Vec::new();
        for st in sc["steps"].as_array().cloned().unwrap_or_default() {
            let kind = st[0].as_str().unwrap_or("");
            let h = st[1].as_str().unwrap_or("").to_string();
            let others_open = handles.keys().filter(|k| **k != h).count();
            let res = match kind {
                "open" => {
                    let via = st.get(2).and_then(|x| x.as_str()).unwrap_or("engine");
                    let r: Result<Handle, String> = std::panic::catch_unwind(std::panic::AssertUnwindSafe(|| match via {
                        "engine" => open_engine(&dir).map(Handle::Engine),
                        "symlink" => open_engine(&link).map(Handle::Engine),
                        "db" => nervusdb_core::Db::open(dir.join("g")).map(Handle::Db).map_err(|e| format!("err:{e}")),
                        "db-ndb" => nervusdb_core::Db::open(dir.join("g.ndb")).map(Handle::Db).map_err(|e| format!("err:{e}")),
                        "db-wal" => nervusdb_core::Db::open(dir.join("g.wal")).map(Handle::Db).map_err(|e| format!("err:{e}")),
                        "db-symlink" => nervusdb_core::Db::open(link.join("g")).map(Handle::Db).map_err(|e| format!("err:{e}")),
                        other => Err(format!("unknown-via:{other}")),
                    })).unwrap_or_else(|_| Err("panic:open".into()));
                    match r {
                        Ok(x) => { handles.insert(h.clone(), x); "ok".to_string() }
                        Err(e) => e,
                    }
                }
                "tx" => match handles.get(&h) {
                    Some(hd) => {
                        let ops = st[2].as_array().cloned().unwrap_or_default();
                        let r = match hd { Handle::Engine(e) => apply_ops(e, &ops, true).0, Handle::Db(d) => db_tx(d, &ops) };
                        if r == "ok" {
                            for o in &ops {
                                if o[0] == "CreateNode" {
                                    acked.push(json!([h, o[1]]));
                                }
                            }
                        }
                        r
                    }
                    None => "not-open".into(),
                },
                "compact" => match handles.get(&h) {
                    Some(Handle::Engine(e)) => match e.compact() { Ok(()) => "ok".into(), Err(e) => format!("err:{e}") },
                    Some(Handle::Db(d)) => match d.compact() { Ok(()) => "ok".into(), Err(e) => format!("err:{e}") },
                    None => "not-open".into(),
                },
                "close" => match handles.remove(&h) {
                    Some(Handle::Engine(e)) => match e.checkpoint_on_close() { Ok(()) => "ok".into(), Err(e) => format!("err:{e}") },
                    Some(Handle::Db(d)) => match d.close() { Ok(()) => "ok".into(), Err(e) => format!("err:{e}") },
                    None => "not-open".into(),
                },
                "drop" => {
                    handles.remove(&h);
                    "ok".into()
                }
                "child-open" => {
                    // a second process tries to open the same files and commit one node
                    let o = std::process::Command::new(&exe).arg("child-open").arg("--dir").arg(&dir).output();
                    match o {
                        Ok(o) => {
                            let t = String::from_utf8_lossy(&o.stdout).trim().to_string();
                            if t.starts_with("ok") {
                                acked.push(json!(["child", "777"]));
                            }
                            t
                        }
                        Err(e) => format!("spawn-failed:{e}"),
                    }
                }
                other => format!("unknown:{other}"),
            };
            steps.push(json!({"kind": kind, "h": h, "res": res, "others_open": others_open}));
        }
        handles.clear();
        let keys = vec!["p".to_string()];
        let fin = match open_engine(&dir) {
            Ok(e) => json!({"open": "ok", "d": dump_engine(&e, &keys)}),
            Err(e) => json!({"open": e, "d": {"e2i": []}}),
        };
        writeln!(out, "{}", json!({"ev": "handles", "id": id, "pre": sc["pre"].as_str().unwrap_or("none"), "steps": steps, "acked": acked, "final": fin})).unwrap();
        let _ = std::fs::remove_dir_all(&dir);
        let _ = std::fs::remove_file(&link);
    }
    json!({"scenarios": scenarios.len()})
}

pub fn child_open(dir: &Path) {
    match open_engine(dir) {
        Ok(e) => {
            let (r, _) = apply_ops(&e, &[json!(["CreateNode", "777", "Child"])], true);
            println!("{}", if r == "ok" { "ok".to_string() } else { format!("opened-but-commit-failed:{r}") });
        }
        Err(e) => println!("refused:{e}"),
    }
}

/// C29: a backup whose two copies are interleaved with writer operations at controlled points.
/// Scenario: prefix ops, then `gaps`: three lists of writer ops executed (by the controller) while the
/// backup thread is parked before the page-file copy, between the copies, and after the log copy.
/// The completed backup is restored into a fresh directory, opened and dumped.
pub fn run_backup(obs: &Arc<Obs>, scenarios: &[J], out: &mut dyn Write, scratch: &Path) -> J {
    use nervusdb_storage::backup::{BackupManager, BackupStatus};
    for sc in scenarios {
        let id = sc["id"].as_str().unwrap_or("s").to_string();
        let dir = scratch.join("bkdb");
        let bdir = scratch.join("bkout");
        let rdir = scratch.join("bkrestore");
        for d in [&dir, &bdir, &rdir] {
            let _ = std::fs::remove_dir_all(d);
            std::fs::create_dir_all(d).unwrap();
        }
        let prefix = sc["prefix"].as_array().cloned().unwrap_or_default();
        let keys: Vec<String> = vec!["p".into(), "q".into()];
        let Some(engine) = prepare_keep(&dir, &prefix) else { continue };
        let engine = Arc::new(engine);
        let mut states = vec![dump_engine(&engine, &keys)];
        obs.sched_enable(true);
        let result: Arc<Mutex<Option<Result<String, String>>>> = Arc::new(Mutex::new(None));
        let (ndb, bd, res2) = (dir.join("g.ndb"), bdir.clone(), result.clone());
        let hb = named('B', move || {
            nervusdb_storage::verif_hooks::sched("thread.start");
            let mgr = BackupManager::new(ndb, bd);
            let r = (|| -> Result<String, String> {
                let h = mgr.begin_backup().map_err(|e| e.to_string())?;
                mgr.execute_backup(&h).map_err(|e| e.to_string())?;
                match mgr.status(&h).map_err(|e| e.to_string())? {
                    BackupStatus::Completed(info) => Ok(info.id.to_string()),
                    BackupStatus::Failed { error } => Err(format!("failed:{error}")),
                    BackupStatus::InProgress { .. } => Err("in-progress".into()),
                }
            })();
            *res2.lock().unwrap() = Some(r);
        });
        let points = ["backup.before_ndb_copy", "backup.between_copies", "backup.after_wal_copy"];
        let gaps = sc["gaps"].as_array().cloned().unwrap_or_default();
        let mut steps = Vec::new();
        let mut engine_opt = Some(engine);
        for (gi, p) in points.iter().enumerate() {
            let st = drive_plan_keep(obs, &[('B', p.to_string())], &[('B', &hb)]);
            steps.extend(st);
            for op in gaps.get(gi).and_then(|g| g.as_array()).cloned().unwrap_or_default() {
                let kind = op["op"].as_str().unwrap_or("");
                if kind == "close-reopen" {
                    if let Some(e) = engine_opt.take() {
                        if let Ok(e) = Arc::try_unwrap(e) {
                            let _ = e.checkpoint_on_close();
                        }
                    }
                    engine_opt = open_engine(&dir).ok().map(Arc::new);
                } else if let Some(e) = &engine_opt {
                    let _ = writer_op(e, &op);
                }
                if let Some(e) = &engine_opt {
                    states.push(dump_engine(e, &keys));
                }
                steps.push(json!(["main", kind, p, "done"]));
            }
        }
        obs.sched_enable(false);
        hb.join().ok();
        let bres = result.lock().unwrap().clone().unwrap_or(Err("no-result".into()));
        let mut ev = json!({"ev": "backup", "id": id, "steps": steps, "states": states, "n_before_start": 1});
        match bres {
            Err(e) => {
                ev["backup"] = json!(e);
            }
            Ok(bid) => {
                ev["backup"] = json!("ok");
                let target = rdir.join("g.ndb");
                let r = BackupManager::restore_from_backup(&bdir, bid.parse().unwrap(), &target);
                match r {
                    Err(e) => ev["restore"] = json!(format!("err:{e}")),
                    Ok(()) => {
                        ev["restore"] = json!("ok");
                        match open_engine(&rdir) {
                            Ok(e2) => {
                                ev["open"] = json!("ok");
                                ev["d"] = dump_engine(&e2, &keys);
                            }
                            Err(e) => ev["open"] = json!(e),
                        }
                    }
                }
            }
        }
        writeln!(out, "{}", ev).unwrap();
        drop(engine_opt);
        for d in [&dir, &bdir, &rdir] {
            let _ = std::fs::remove_dir_all(d);
        }
    }
    json!({"scenarios": scenarios.len()})
}

fn prepare_keep(dir: &Path, prefix: &[J]) -> Option<GraphEngine> {
    let engine = open_engine(dir).ok()?;
    for op in prefix {
        let _ = writer_op(&engine, op);
    }
    Some(engine)
}

/// like drive_plan, but leaves the schedule controller enabled afterwards
fn drive_plan_keep(obs: &Obs, plan: &[(char, String)], handles: &[(char, &JoinHandle<()>)]) -> Vec<J> {
    let mut steps = Vec::new();
    for (tok, target) in plan {
        let Some((_, h)) = handles.iter().find(|(c, _)| c == tok) else { continue };
        let name = tok.to_string();
        let fin = || h.is_finished();
        let mut first = true;
        let mut last = "-".to_string();
        let status;
        loop {
            let st = obs.wait_parked(&name, 0, &fin);
            if st != "parked" {
                status = st.to_string();
                break;
            }
            let at = obs.sched.lock().unwrap().parked.get(&name).copied().unwrap_or("?");
            last = at.to_string();
            if at == target && !first {
                status = "parked".to_string();
                break;
            }
            if at == target && first && last == *target {
                // already there (a previous entry stopped at this point)
                status = "parked".to_string();
                break;
            }
            first = false;
            let before = obs.arrivals(&name);
            obs.release_one(&name);
            let st2 = obs.wait_parked(&name, before + 1, &fin);
            if st2 != "parked" {
                status = st2.to_string();
                break;
            }
        }
        steps.push(json!([name, target, last, status]));
    }
    steps
}

type LockOp = (&'static str, Box<dyn Fn(u64) + Send + Sync>);

fn steps_of(evs: &[crate::obs::LockEvent]) -> Vec<J> {
    let mut steps: Vec<J> = Vec::new();
    for e in evs {
        match e.phase {
            1 => steps.push(json!(["acq", e.name, e.mode])),
            2 => steps.push(json!(["rel", e.name, e.mode])),
            3 => {
                steps.push(json!(["acq", e.name, e.mode]));
                steps.push(json!(["rel", e.name, e.mode]));
            }
            _ => {}
        }
    }
    steps
}

/// One store, one set of public operations: (1) each operation alone, its lock steps recorded; (2) all of them from
/// `stress_threads` threads under a no-progress watchdog, the lock steps of every call recorded per thread; distinct
/// step sequences seen only under contention are added as further programs.
fn lock_universe(universe: &str, obs: &Arc<Obs>, ops: Vec<LockOp>, out: &mut dyn Write, stress_threads: usize, stress_iters: usize) -> J {
    let mut programs: Vec<J> = Vec::new();
    let mut seen: std::collections::HashSet<String> = Default::default();
    for (name, f) in &ops {
        for k in [1u64, 2] {
            *obs.lock_log.lock().unwrap() = true;
            obs.locks.lock().unwrap().clear();
            f(k);
            *obs.lock_log.lock().unwrap() = false;
            let steps = steps_of(&obs.locks.lock().unwrap());
            if seen.insert(format!("{}", json!(steps))) || k == 1 {
                programs.push(json!({"universe": universe, "name": format!("{name}/{k}"), "from": "solo", "steps": steps}));
            }
        }
    }
    let solo = programs.len();
    let progress = Arc::new(std::sync::atomic::AtomicU64::new(0));
    let ops = Arc::new(ops);
    obs.locks.lock().unwrap().clear();
    *obs.lock_log.lock().unwrap() = true;
    let mut hs = Vec::new();
    for t in 0..stress_threads {
        let (ops, pr, ob) = (ops.clone(), progress.clone(), obs.clone());
        hs.push(std::thread::Builder::new().name(format!("lk{t}")).spawn(move || {
            let mut x = 0x9E3779B97F4A7C15u64.wrapping_mul(t as u64 + 1) | 1;
            for i in 0..stress_iters {
                x ^= x << 13; x ^= x >> 7; x ^= x << 17;
                let k = (x % ops.len() as u64) as usize;
                ob.locks.lock().unwrap().push(crate::obs::LockEvent { thread: format!("lk{t}"), name: ops[k].0, mode: "op", phase: 9 });
                (ops[k].1)((t * 1_000_000 + i) as u64 + 10);
                pr.fetch_add(1, std::sync::atomic::Ordering::SeqCst);
            }
        }).unwrap());
    }
    let mut last = 0u64;
    let mut stalled_ms = 0u64;
    let mut deadlock = false;
    loop {
        std::thread::sleep(Duration::from_millis(50));
        if hs.iter().all(|h| h.is_finished()) { break; }
        let now = progress.load(std::sync::atomic::Ordering::SeqCst);
        if now == last { stalled_ms += 50; } else { stalled_ms = 0; last = now; }
        if stalled_ms >= 30_000 { deadlock = true; break; }
    }
    *obs.lock_log.lock().unwrap() = false;
    let done = progress.load(std::sync::atomic::Ordering::SeqCst);
    let mut stuck: Vec<J> = Vec::new();
    {
        // split the recorded stream per thread and per call
        let evs = obs.locks.lock().unwrap();
        let mut per: BTreeMap<String, Vec<(String, Vec<crate::obs::LockEvent>)>> = BTreeMap::new();
        for e in evs.iter() {
            let calls = per.entry(e.thread.clone()).or_default();
            if e.phase == 9 {
                calls.push((e.name.to_string(), Vec::new()));
            } else if let Some(last) = calls.last_mut() {
                last.1.push(crate::obs::LockEvent { thread: e.thread.clone(), name: e.name, mode: e.mode, phase: e.phase });
            }
        }
        for (th, calls) in &per {
            for (idx, (name, ev)) in calls.iter().enumerate() {
                let unfinished = deadlock && idx + 1 == calls.len();
                if unfinished {
                    let waiting = ev.iter().rev().find(|e| e.phase == 0).map(|e| json!([e.name, e.mode]));
                    stuck.push(json!({"thread": th, "op": name, "steps_so_far": steps_of(ev), "last_attempt": waiting}));
                    continue;
                }
                let steps = steps_of(ev);
                if seen.insert(format!("{}", json!(steps))) {
                    programs.push(json!({"universe": universe, "name": format!("{name}/stress{}", programs.len()), "from": "stress", "steps": steps}));
                }
            }
        }
    }
    obs.locks.lock().unwrap().clear();
    for p in &programs {
        writeln!(out, "{}", p).unwrap();
    }
    let res = json!({"universe": universe, "programs": programs.len(), "programs_solo": solo, "stress_threads": stress_threads,
                     "stress_ops_done": done, "stress_ops_planned": stress_threads * stress_iters,
                     "no_progress_for_30s": deadlock, "stuck": stuck});
    if deadlock {
        // threads are stuck: leave them behind and exit the process with the result printed
        out.flush().unwrap();
        println!("{}", json!({"universes": [res]}));
        std::process::exit(0);
    }
    for h in hs { let _ = h.join(); }
    res
}

/// C35: the lock programs of the public operations and a watchdogged stress run, for the storage engine API and for the
/// `Db` + Cypher API (two stores, so two lock universes).
pub fn run_locks(obs: &Arc<Obs>, out: &mut dyn Write, scratch: &Path, stress_threads: usize, stress_iters: usize) -> J {
    use nervusdb_api::GraphSnapshot;
    let dir = scratch.join("locks");
    let _ = std::fs::remove_dir_all(&dir);
    std::fs::create_dir_all(&dir).unwrap();
    let engine = Arc::new(open_engine(&dir).expect("open"));
    let seed_ops = vec![json!(["CreateNode", "1", "A"]), json!(["CreateNode", "2", "B"]), json!(["CreateEdge", 0, "R", 1]),
                        json!(["SetNP", 0, "p", "i:1"]), json!(["SetEP", 0, "R", 1, "w", "i:2"])];
    let _ = apply_ops(&engine, &seed_ops, true);
    let _ = engine.create_index("A", "p");
    macro_rules! eop { ($name:expr, |$e:ident, $k:ident| $body:block) => {{ let $e = engine.clone(); ($name, Box::new(move |$k: u64| { let _ = &$k; $body }) as Box<dyn Fn(u64) + Send + Sync>) }}; }
    let ops: Vec<LockOp> = vec![
        eop!("commit-create", |e, k| { let _ = apply_ops(&e, &[json!(["CreateNode", (1000 + k).to_string(), "A"]), json!(["SetNP", 0, "p", "i:3"]), json!(["CreateEdge", 0, "R", 1])], true); }),
        eop!("commit-new-label", |e, k| { let _ = apply_ops(&e, &[json!(["CreateNode", (500000 + k).to_string(), format!("L{}", k % 7)]), json!(["AddLabel", 0, format!("M{}", k % 5)])], true); }),
        eop!("commit-delete", |e, k| { let _ = apply_ops(&e, &[json!(["DelEdge", 0, "R", 1]), json!(["CreateEdge", 0, "R", 1]), json!(["RemNP", 1, "q"])], true); }),
        eop!("abort", |e, k| { let _ = apply_ops(&e, &[json!(["CreateNode", (900000 + k).to_string(), "A"])], false); }),
        eop!("compact", |e, k| { let _ = e.compact(); }),
        eop!("checkpoint", |e, k| { let _ = e.checkpoint_on_close(); }),
        eop!("create-index", |e, k| { let _ = e.create_index("A", if k % 2 == 0 { "p" } else { "q" }); }),
        eop!("snapshot-scan", |e, k| { let s = e.snapshot(); let n: Vec<u32> = s.nodes().collect(); for x in n.iter().take(4) { let _ = s.neighbors(*x, None).count(); let _ = s.incoming_neighbors(*x, None).count(); } }),
        eop!("snapshot-props", |e, k| { let s = e.snapshot(); let _ = s.node_property(0, "p"); let _ = s.node_properties(0); let _ = s.resolve_node_labels(0); let _ = s.resolve_external(0); let _ = s.edge_property(nervusdb_api::EdgeKey { src: 0, rel: 0, dst: 1 }, "w"); }),
        eop!("lookup-index", |e, k| { let s = e.snapshot(); let _ = s.lookup_index("A", "p", &nervusdb_api::PropertyValue::Int(1)); }),
        eop!("lookup-id", |e, k| { let _ = e.lookup_internal_id(1); }),
        eop!("set-vector", |e, k| { let _ = apply_ops(&e, &[json!(["SetVec", 0, [0.5, (k % 3) as f64]])], true); }),
        eop!("search-vector", |e, k| { let _ = e.search_vector(&[0.5, 1.0], 2); }),
        eop!("stats", |e, k| { let s = e.snapshot(); let _ = s.node_count(None); let _ = s.edge_count(None); }),
    ];
    let r1 = lock_universe("engine", obs, ops, out, stress_threads, stress_iters);
    drop(engine);

    let dir2 = scratch.join("locks-db");
    let _ = std::fs::remove_dir_all(&dir2);
    std::fs::create_dir_all(&dir2).unwrap();
    let db = Arc::new(nervusdb_core::Db::open(dir2.join("g")).expect("open db"));
    let none = nervusdb_query::Params::new();
    let _ = crate::cypher::run_write(&db, "CREATE (:A {p: 1})-[:R]->(:B {p: 2})-[:R]->(:A {p: 3})", &none);
    let _ = db.create_index("A", "p");
    macro_rules! dop { ($name:expr, |$d:ident, $k:ident| $body:block) => {{ let $d = db.clone(); ($name, Box::new(move |$k: u64| { let _ = &$k; $body }) as Box<dyn Fn(u64) + Send + Sync>) }}; }
    let w = |d: &nervusdb_core::Db, q: &str| { let _ = crate::cypher::run_write(d, q, &nervusdb_query::Params::new()); };
    let r = |d: &nervusdb_core::Db, q: &str| { let _ = crate::cypher::run_read(d, q, &nervusdb_query::Params::new()); };
    let ops2: Vec<LockOp> = vec![
        dop!("cy-create", |d, k| { w(&d, &format!("CREATE (:A {{p: {}}})-[:R]->(:B {{p: 2}})", k % 4)); }),
        dop!("cy-create-new-label", |d, k| { w(&d, &format!("CREATE (:N{} {{p: 1}})-[:T{}]->(:B)", k % 9, k % 6)); }),
        dop!("cy-merge", |d, k| { w(&d, &format!("MERGE (n:A {{p: 1}}) SET n.q = {}", k % 5)); }),
        dop!("cy-match-set", |d, k| { w(&d, "MATCH (a:A)-[r:R]->(b) SET r.w = 1, b.seen = true"); }),
        dop!("cy-delete", |d, k| { w(&d, "MATCH (n:B) WITH n LIMIT 1 DETACH DELETE n"); }),
        dop!("cy-remove", |d, k| { w(&d, "MATCH (n:A) REMOVE n.q"); }),
        dop!("cy-read-scan", |d, k| { r(&d, "MATCH (a:A)-[:R]->(b) RETURN count(*)"); }),
        dop!("cy-read-index", |d, k| { r(&d, "MATCH (n:A) WHERE n.p = 1 RETURN n"); }),
        dop!("cy-read-varlen", |d, k| { r(&d, "MATCH (a)-[*1..2]->(b) RETURN count(b)"); }),
        dop!("cy-read-props", |d, k| { r(&d, "MATCH (a)-[r]->(b) RETURN a, r, b, labels(a), type(r), properties(b) LIMIT 5"); }),
        dop!("cy-read-optional", |d, k| { r(&d, "MATCH (a:A) OPTIONAL MATCH (a)<-[r]-(b) RETURN a.p, collect(b.p)"); }),
        dop!("db-compact", |d, k| { let _ = d.compact(); }),
        dop!("db-checkpoint", |d, k| { let _ = d.checkpoint(); }),
        dop!("db-create-index", |d, k| { let _ = d.create_index("A", if k % 2 == 0 { "p" } else { "q" }); }),
        dop!("db-search-vector", |d, k| { let _ = d.search_vector(&[0.5, 1.0], 2); }),
        dop!("db-txn", |d, k| { let mut t = d.begin_write(); let l = t.get_or_create_label("A"); if let Ok(l) = l { if let Ok(n) = t.create_node(k + 7_000_000, l) { let _ = t.set_vector(n, vec![0.25, 0.5]); } } let _ = t.commit(); }),
        dop!("db-read-txn", |d, k| { let t = d.begin_read(); let _ = t.neighbors(0, None).count(); let s = d.snapshot(); let _ = s.nodes().count(); }),
    ];
    let r2 = lock_universe("db", obs, ops2, out, stress_threads, stress_iters);
    json!({"universes": [r1, r2]})
}
