//! C18 driver: growth histories (thousands of nodes, relationships, large property values, compactions, index
//! creation, vectors, reopen) with the page-ownership hook on.  Every step logs the pager events it caused
//! (`[op, page, calling module]`) and what the read interfaces return afterwards; nothing is judged here.

use crate::obs::Obs;
use crate::storage::open_engine;
use nervusdb_core::{GraphSnapshot, GraphStore, PropertyValue};
use nervusdb_storage::engine::GraphEngine;
use serde_json::{Value as J, json};
use std::io::Write;
use std::panic::{AssertUnwindSafe, catch_unwind};
use std::path::Path;
use std::sync::Arc;

fn who(file: &str) -> String {
    let base = file.rsplit('/').next().unwrap_or(file);
    let base = base.strip_suffix(".rs").unwrap_or(base);
    if file.contains("/hnsw/") { format!("hnsw_{base}") } else { base.to_string() }
}

fn blob_text(ext: u64, size: usize) -> String {
    let c = (b'a' + (ext % 26) as u8) as char;
    std::iter::repeat(c).take(size).collect()
}

fn observe(e: &GraphEngine, idx: &[(String, String)], probes: &[i64]) -> J {
    let r = catch_unwind(AssertUnwindSafe(|| {
        let s = e.snapshot();
        let mut errs: Vec<String> = Vec::new();
        let mut nodes = Vec::new();
        let mut edges = Vec::new();
        let ids: Vec<u32> = s.nodes().collect();
        for &n in &ids {
            let one = catch_unwind(AssertUnwindSafe(|| {
                let ext = s.resolve_external(n).map(|x| x as i64).unwrap_or(-1);
                let labels: Vec<String> = s.resolve_node_labels(n).unwrap_or_default().into_iter()
                    .filter(|l| *l != u32::MAX)
                    .map(|l| s.resolve_label_name(l).unwrap_or_else(|| format!("#{l}"))).collect();
                // scalars only (the monitor compares whole records): -1 = absent, -2 = a value of another type
                let p: i64 = match s.node_property(n, "p") { Some(PropertyValue::Int(i)) => i, Some(_) => -2, None => -1 };
                let (blen, bsum): (i64, i64) = match s.node_property(n, "blob") {
                    Some(PropertyValue::String(t)) => (t.len() as i64, (t.bytes().map(|b| b as u64).sum::<u64>() % 65536) as i64),
                    Some(_) => (-2, -2),
                    None => (-1, -1),
                };
                let labels = labels.join(",");
                let out: Vec<J> = s.neighbors(n, None).map(|k| json!([k.src, k.dst])).collect();
                let inn: Vec<J> = s.incoming_neighbors(n, None).map(|k| json!([k.src, k.dst])).collect();
                (json!([n, ext, labels, p, blen, bsum]), out, inn)
            }));
            match one {
                Ok((rec, out, inn)) => {
                    nodes.push(rec);
                    // parallel relationships folded into [direction, src, dst, how many]
                    for (dir, list) in [("o", out), ("i", inn)] {
                        let mut m: std::collections::BTreeMap<(u64, u64), u64> = Default::default();
                        for x in list { *m.entry((x[0].as_u64().unwrap(), x[1].as_u64().unwrap())).or_insert(0) += 1; }
                        for ((a, b), c) in m { edges.push(json!([dir, a, b, c])); }
                    }
                }
                Err(_) => errs.push(format!("panic:node:{n}")),
            }
        }
        let mut lookups = Vec::new();
        for (l, f) in idx {
            for &v in probes {
                let r = catch_unwind(AssertUnwindSafe(|| s.lookup_index(l, f, &PropertyValue::Int(v))));
                match r {
                    Ok(Some(mut hits)) => { hits.sort_unstable(); lookups.push(json!({"label": l, "field": f, "value": v, "indexed": true, "hits": hits})); }
                    Ok(None) => lookups.push(json!({"label": l, "field": f, "value": v, "indexed": false, "hits": []})),
                    Err(_) => errs.push(format!("panic:lookup:{l}:{f}:{v}")),
                }
            }
        }
        json!({"nodes": nodes, "edges": edges, "lookups": lookups, "errs": errs})
    }));
    r.unwrap_or_else(|_| json!({"nodes": [], "edges": [], "lookups": [], "errs": ["panic:observe"]}))
}

pub fn run(obs: &Arc<Obs>, scenarios: &[J], out: &mut dyn Write, scratch: &Path) -> J {
    let (mut n_steps, mut n_pages, mut n_nodes, mut n_images) = (0u64, 0u64, 0u64, 0u64);
    for sc in scenarios {
        let id = sc["id"].as_str().unwrap_or("s");
        let dir = scratch.join("pages");
        let _ = std::fs::remove_dir_all(&dir);
        std::fs::create_dir_all(&dir).unwrap();
        obs.pages.lock().unwrap().clear();
        *obs.page_log.lock().unwrap() = true;
        let mut engine = match open_engine(&dir) { Ok(e) => Some(e), Err(e) => { writeln!(out, "{}", json!({"ev": "reset", "id": id, "open": e})).unwrap(); continue; } };
        writeln!(out, "{}", json!({"ev": "reset", "id": id, "open": "ok"})).unwrap();
        let mut next_ext: u64 = 1;
        let mut created: u64 = 0;        // nodes whose creation committed, as the driver was told by the engine
        let mut indexes: Vec<(String, String)> = Vec::new();
        let steps = sc["steps"].as_array().cloned().unwrap_or_default();
        for st in &steps {
            n_steps += 1;
            let op = st["op"].as_str().unwrap_or("");
            let mut ev = json!({"ev": "step", "op": op});
            let e = engine.as_ref();
            let crash = st["crash"].as_bool().unwrap_or(false);
            let ext_before = next_ext;
            if crash {
                obs.start_io(&dir, true);
                // power-loss images start from the files as they are now (unsynced earlier writes are taken as persisted,
                // which is one of the states a power loss may leave)
                obs.io.lock().unwrap().synced = crate::obs::read_dir_files(&dir);
            }
            let res: Result<Result<J, String>, _> = catch_unwind(AssertUnwindSafe(|| -> Result<J, String> {
                match op {
                    "nodes" => {
                        let e = e.ok_or("closed")?;
                        let n = st["n"].as_u64().unwrap();
                        let label = st["label"].as_str().unwrap();
                        let mut tx = e.begin_write();
                        let l = tx.get_or_create_label(label).map_err(|x| x.to_string())?;
                        let mut ids = Vec::new();
                        for k in 0..n {
                            let id = tx.create_node(next_ext + k, l).map_err(|x| x.to_string())?;
                            tx.set_node_property(id, "p".into(), PropertyValue::Int((next_ext + k) as i64));
                            ids.push(id);
                        }
                        tx.commit().map_err(|x| x.to_string())?;
                        Ok(json!({"first": next_ext, "n": n, "label": label, "first_iid": ids.first(), "last_iid": ids.last()}))
                    }
                    "edges" => {
                        let e = e.ok_or("closed")?;
                        let n = st["n"].as_u64().unwrap();
                        let from = st["from"].as_u64().unwrap();
                        let stride = st["stride"].as_u64().unwrap();
                        let mut tx = e.begin_write();
                        let r = tx.get_or_create_rel_type("R").map_err(|x| x.to_string())?;
                        let mut made = Vec::new();
                        for k in 0..n {
                            if created == 0 { break; }
                            let s = (from + k) % created;
                            let d = (s * stride + 1) % created;
                            tx.create_edge(s as u32, r, d as u32);
                            made.push(json!([s, d]));
                        }
                        tx.commit().map_err(|x| x.to_string())?;
                        Ok(json!({"made": made}))
                    }
                    "blobs" => {
                        let e = e.ok_or("closed")?;
                        let n = st["n"].as_u64().unwrap();
                        let from = st["from"].as_u64().unwrap();
                        let size = st["size"].as_u64().unwrap() as usize;
                        let mut tx = e.begin_write();
                        let mut set = Vec::new();
                        for k in 0..n {
                            if created == 0 { break; }
                            let iid = (from + k) % created;
                            tx.set_node_property(iid as u32, "blob".into(), PropertyValue::String(blob_text(iid + 1, size)));
                            set.push(json!(iid));
                        }
                        tx.commit().map_err(|x| x.to_string())?;
                        Ok(json!({"set": set, "size": size}))
                    }
                    "vectors" => {
                        let e = e.ok_or("closed")?;
                        let n = st["n"].as_u64().unwrap();
                        let from = st["from"].as_u64().unwrap();
                        let dim = st["dim"].as_u64().unwrap_or(4) as usize;
                        let mut tx = e.begin_write();
                        let mut set = Vec::new();
                        for k in 0..n {
                            if created == 0 { break; }
                            let iid = (from + k) % created;
                            let v: Vec<f32> = (0..dim).map(|j| ((iid * 31 + j as u64 * 7) % 97) as f32 / 8.0).collect();
                            tx.set_vector(iid as u32, v).map_err(|x| x.to_string())?;
                            set.push(json!(iid));
                        }
                        tx.commit().map_err(|x| x.to_string())?;
                        Ok(json!({"set": set}))
                    }
                    "index" => {
                        let e = e.ok_or("closed")?;
                        let (l, f) = (st["label"].as_str().unwrap(), st["field"].as_str().unwrap());
                        e.create_index(l, f).map_err(|x| x.to_string())?;
                        Ok(json!({"label": l, "field": f}))
                    }
                    "compact" => { e.ok_or("closed")?.compact().map_err(|x| x.to_string())?; Ok(json!({})) }
                    "checkpoint" => { e.ok_or("closed")?.checkpoint_on_close().map_err(|x| x.to_string())?; Ok(json!({})) }
                    "search" => {
                        let e = e.ok_or("closed")?;
                        let r = e.search_vector(&[1.0, 2.0, 3.0, 4.0], 5).map_err(|x| x.to_string())?;
                        Ok(json!({"hits": r.len()}))
                    }
                    "reopen" | "vacuum" => Ok(json!({})),
                    _ => Err("unknown step".into()),
                }
            }));
            if crash {
                // every distinct process-death / power-loss image of this step: opened by the real recovery code and read back
                obs.stop_io();
                *obs.page_log.lock().unwrap() = false;
                let images = obs.take_images();
                let mut seen: std::collections::HashSet<u64> = Default::default();
                let idir = scratch.join("pages-img");
                for img in images {
                    use std::hash::{Hash, Hasher};
                    let mut h = std::collections::hash_map::DefaultHasher::new();
                    img.files.hash(&mut h);
                    img.kind.hash(&mut h);
                    if !seen.insert(h.finish()) { continue; }
                    crate::obs::write_image(&idir, &img.files);
                    let mut ce = json!({"ev": "crashobs", "op": op, "kind": img.kind, "site": img.site, "io_step": img.step, "st": st, "first": ext_before});
                    match open_engine(&idir) {
                        Ok(e2) => {
                            ce["open"] = json!("ok");
                            let o = observe(&e2, &indexes, &[]);
                            for k in ["nodes", "edges", "lookups", "errs"] { ce[k] = o[k].clone(); }
                        }
                        Err(m) => { ce["open"] = json!(m); for k in ["nodes", "edges", "lookups", "errs"] { ce[k] = json!([]); } }
                    }
                    writeln!(out, "{}", ce).unwrap();
                    n_images += 1;
                }
                let _ = std::fs::remove_dir_all(&idir);
                *obs.page_log.lock().unwrap() = true;
            }
            let mut ok = false;
            match res {
                Ok(Ok(info)) => { ev["res"] = json!("ok"); ev["info"] = info; ok = true; }
                Ok(Err(m)) => { ev["res"] = json!(format!("err:{m}")); ev["info"] = json!({}); }
                Err(_) => { ev["res"] = json!("panic"); ev["info"] = json!({}); }
            }
            if op == "reopen" {
                drop(engine.take());
                match open_engine(&dir) { Ok(e2) => { engine = Some(e2); } Err(m) => { ev["res"] = json!(m); ok = false; } }
            }
            if op == "vacuum" {
                // close cleanly, vacuum the closed database, open it again
                *obs.page_log.lock().unwrap() = false;
                if let Some(e) = engine.take() {
                    if let Err(m) = e.checkpoint_on_close() { ev["res"] = json!(format!("err:close:{m}")); ok = false; }
                    drop(e);
                }
                let v = catch_unwind(AssertUnwindSafe(|| nervusdb_core::vacuum(dir.join("g")).map(|_| ()).map_err(|e| e.to_string())));
                match v {
                    Ok(Ok(())) => {}
                    Ok(Err(m)) => { ev["res"] = json!(format!("err:vacuum:{m}")); ok = false; }
                    Err(_) => { ev["res"] = json!("panic:vacuum"); ok = false; }
                }
                obs.pages.lock().unwrap().clear();
                match open_engine(&dir) { Ok(e2) => { engine = Some(e2); } Err(m) => { ev["res"] = json!(format!("err:open-after-vacuum:{m}")); ok = false; } }
                *obs.page_log.lock().unwrap() = true;
            }
            if ok {
                match op {
                    "nodes" => { let n = st["n"].as_u64().unwrap(); next_ext += n; created += n; n_nodes += n; }
                    "index" => indexes.push((st["label"].as_str().unwrap().to_string(), st["field"].as_str().unwrap().to_string())),
                    _ => {}
                }
            } else if op == "nodes" {
                next_ext += st["n"].as_u64().unwrap();   // never reuse an external id of a failed step
            }
            // the pager events of this step, consecutive repeats folded
            let evs: Vec<(&'static str, u64, &'static str)> = std::mem::take(&mut *obs.pages.lock().unwrap());
            let mut pages: Vec<J> = Vec::new();
            let mut last: Option<(&str, u64, String)> = None;
            for (o, p, w) in evs.iter() {
                let cur = (*o, *p, who(w));
                if last.as_ref() != Some(&cur) { pages.push(json!([cur.0, cur.1, cur.2])); }
                last = Some(cur);
            }
            n_pages += pages.len() as u64;
            ev["pages"] = json!(pages);
            ev["st"] = st.clone();
            writeln!(out, "{}", ev).unwrap();
            if st["observe"].as_bool().unwrap_or(false) {
                *obs.page_log.lock().unwrap() = false;
                let probes: Vec<i64> = st["probes"].as_array().map(|a| a.iter().map(|x| x.as_i64().unwrap()).collect()).unwrap_or_default();
                let mut o = match engine.as_ref() { Some(e) => observe(e, &indexes, &probes), None => json!({"nodes": [], "edges": [], "lookups": [], "errs": ["closed"]}) };
                o["ev"] = json!("obs");
                writeln!(out, "{}", o).unwrap();
                *obs.page_log.lock().unwrap() = true;
            }
        }
        *obs.page_log.lock().unwrap() = false;
        drop(engine);
        let _ = std::fs::remove_dir_all(&dir);
    }
    json!({"scenarios": scenarios.len(), "steps": n_steps, "page_events": n_pages, "nodes_created": n_nodes, "crash_images": n_images})
}
