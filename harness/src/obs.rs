//! The observer installed into the repository's cfg(nervusdb_verif) hooks.
//!
//! * counts I/O steps and records (step, kind, site, file);
//! * after every I/O step materialises the process-death image (all bytes
//!   written so far) and the power-loss image (every file exactly as of its
//!   last sync_data; an un-fsynced rename taken both ways);
//! * fails one chosen I/O step (fault injection);
//! * parks threads at schedule points under a controller;
//! * records lock attempts and page ownership events;
//! * replaces the wall clock used for external ids.

use nervusdb_storage::verif_hooks::Observer;
use std::collections::{BTreeMap, HashMap};
use std::fs::File;
use std::path::{Path, PathBuf};
use std::sync::{Arc, Condvar, Mutex};

pub type FileMap = BTreeMap<String, Vec<u8>>;

/// the observer installed by main (drivers that need to script the clock reach it here)
pub static GLOBAL: std::sync::OnceLock<Arc<Obs>> = std::sync::OnceLock::new();

#[derive(Clone, Debug)]
pub struct IoEvent {
    pub step: u64,
    pub kind: &'static str,
    pub site: &'static str,
    pub file: String,
}

#[derive(Clone, Debug)]
pub struct Image {
    pub step: u64,
    pub kind: &'static str, // "process" | "power" | "power-norename"
    pub site: &'static str,
    pub files: Arc<FileMap>,
}

#[derive(Default)]
pub struct IoState {
    pub dir: Option<PathBuf>,
    pub step: u64,
    pub events: Vec<IoEvent>,
    pub capture: bool,
    pub images: Vec<Image>,
    pub synced: FileMap,
    pub synced_alt: Option<(FileMap, String)>, // state without the last rename, until `to` is synced
    pub fault_at: Option<u64>,
    pub fault_fired: Option<IoEvent>,
    last_process: Option<Arc<FileMap>>,
    last_power: Option<Arc<FileMap>>,
}

#[derive(Default)]
pub struct SchedState {
    /// thread name -> point it is parked at
    pub parked: HashMap<String, &'static str>,
    /// thread name -> number of points it may still pass freely
    pub release: HashMap<String, u64>,
    pub enabled: bool,
    pub log: Vec<(String, &'static str)>,
}

#[derive(Default)]
pub struct LockEvent {
    pub thread: String,
    pub name: &'static str,
    pub mode: &'static str,
    pub phase: u8,
}

#[derive(Default)]
pub struct Obs {
    pub io: Mutex<IoState>,
    pub sched: Mutex<SchedState>,
    pub sched_cv: Condvar,
    pub locks: Mutex<Vec<LockEvent>>,
    pub lock_log: Mutex<bool>,
    pub pages: Mutex<Vec<(&'static str, u64, &'static str)>>,
    pub page_log: Mutex<bool>,
    pub clock: Mutex<Option<Vec<u64>>>, // fake clock readings, consumed front to back (last one repeats)
    pub clock_log: Mutex<Vec<(u64, u64)>>,
    pub hnsw_levels: Mutex<Option<Vec<u8>>>, // scripted levels of the next vector insertions, consumed front to back
}

fn file_name_of(file: Option<&File>, path: Option<&Path>) -> (Option<PathBuf>, String) {
    let p = if let Some(p) = path {
        Some(p.to_path_buf())
    } else if let Some(f) = file {
        use std::os::fd::AsRawFd;
        std::fs::read_link(format!("/proc/self/fd/{}", f.as_raw_fd())).ok()
    } else {
        None
    };
    let name = p
        .as_ref()
        .and_then(|p| p.file_name())
        .map(|s| s.to_string_lossy().to_string())
        .unwrap_or_default();
    (p, name)
}

pub fn read_dir_files(dir: &Path) -> FileMap {
    let mut m = FileMap::new();
    if let Ok(rd) = std::fs::read_dir(dir) {
        for e in rd.flatten() {
            if e.file_type().map(|t| t.is_file()).unwrap_or(false) {
                if let Ok(b) = std::fs::read(e.path()) {
                    m.insert(e.file_name().to_string_lossy().to_string(), b);
                }
            }
        }
    }
    m
}

pub fn write_image(dir: &Path, files: &FileMap) {
    let _ = std::fs::remove_dir_all(dir);
    std::fs::create_dir_all(dir).unwrap();
    for (n, b) in files {
        std::fs::write(dir.join(n), b).unwrap();
    }
}

impl Obs {
    pub fn new() -> Arc<Self> {
        Arc::new(Self::default())
    }

    pub fn start_io(&self, dir: &Path, capture: bool) {
        let mut io = self.io.lock().unwrap();
        *io = IoState::default();
        io.dir = Some(dir.to_path_buf());
        io.capture = capture;
    }

    pub fn stop_io(&self) {
        let mut io = self.io.lock().unwrap();
        io.dir = None;
    }

    pub fn take_images(&self) -> Vec<Image> {
        std::mem::take(&mut self.io.lock().unwrap().images)
    }

    pub fn step(&self) -> u64 {
        self.io.lock().unwrap().step
    }

    // ---- schedule controller -------------------------------------------------
    pub fn sched_enable(&self, on: bool) {
        let mut s = self.sched.lock().unwrap();
        s.enabled = on;
        s.parked.clear();
        s.release.clear();
        s.log.clear();
        self.sched_cv.notify_all();
    }

    /// Let thread `name` run until it has passed `n` more schedule points.
    pub fn sched_release(&self, name: &str, n: u64) {
        let mut s = self.sched.lock().unwrap();
        *s.release.entry(name.to_string()).or_insert(0) += n;
        self.sched_cv.notify_all();
    }

    /// Wait until thread `name` is parked (returns the point) or `done()` holds.
    pub fn sched_wait_parked(&self, name: &str, done: &dyn Fn() -> bool) -> Option<&'static str> {
        let mut s = self.sched.lock().unwrap();
        loop {
            if let Some(p) = s.parked.get(name) {
                if s.release.get(name).copied().unwrap_or(0) == 0 {
                    return Some(*p);
                }
            }
            if done() {
                return None;
            }
            let (g, _) = self
                .sched_cv
                .wait_timeout(s, std::time::Duration::from_millis(2))
                .unwrap();
            s = g;
        }
    }
}

fn thread_name() -> String {
    std::thread::current().name().unwrap_or("main").to_string()
}

impl Observer for Obs {
    fn io_before(
        &self,
        kind: &'static str,
        site: &'static str,
        file: Option<&File>,
        path: Option<&Path>,
    ) -> std::io::Result<()> {
        let mut io = self.io.lock().unwrap();
        let Some(dir) = io.dir.clone() else { return Ok(()) };
        let (p, name) = file_name_of(file, path);
        if let Some(p) = &p {
            if p.parent() != Some(dir.as_path()) {
                return Ok(());
            }
        }
        io.step += 1;
        let ev = IoEvent { step: io.step, kind, site, file: name };
        io.events.push(ev.clone());
        if io.fault_at == Some(io.step) {
            io.fault_at = None;
            io.fault_fired = Some(ev);
            return Err(std::io::Error::other("injected I/O fault"));
        }
        Ok(())
    }

    fn io_after(
        &self,
        kind: &'static str,
        site: &'static str,
        file: Option<&File>,
        path: Option<&Path>,
    ) {
        let mut io = self.io.lock().unwrap();
        let Some(dir) = io.dir.clone() else { return };
        let (p, name) = file_name_of(file, path);
        if let Some(p) = &p {
            if p.parent() != Some(dir.as_path()) {
                return;
            }
        }
        if !io.capture {
            return;
        }
        let current = read_dir_files(&dir);
        // power-loss bookkeeping
        match kind {
            "sync" => {
                if let Some(b) = current.get(&name) {
                    io.synced.insert(name.clone(), b.clone());
                }
                if let Some((_, to)) = &io.synced_alt {
                    if *to == name {
                        io.synced_alt = None;
                    }
                }
            }
            "rename" => {
                // `name` is the destination; the source is the file that left the directory.
                let before = io.synced.clone();
                let prev: Vec<String> = io
                    .last_process
                    .as_ref()
                    .map(|m| m.keys().cloned().collect())
                    .unwrap_or_default();
                let gone: Vec<String> =
                    prev.into_iter().filter(|k| !current.contains_key(k)).collect();
                for g in gone {
                    match io.synced.remove(&g) {
                        Some(b) => {
                            io.synced.insert(name.clone(), b);
                        }
                        None => {
                            // renamed a file whose content was never synced: the name may
                            // survive power loss, its content does not.
                            io.synced.insert(name.clone(), Vec::new());
                        }
                    }
                }
                io.synced_alt = Some((before, name.clone()));
            }
            _ => {}
        }
        let step = io.step;
        let cur = Arc::new(current);
        if io.last_process.as_deref() != Some(&*cur) {
            io.images.push(Image { step, kind: "process", site, files: cur.clone() });
            io.last_process = Some(cur);
        }
        let pw = Arc::new(io.synced.clone());
        if io.last_power.as_deref() != Some(&*pw) || kind == "rename" {
            io.images.push(Image { step, kind: "power", site, files: pw.clone() });
            io.last_power = Some(pw);
            if let Some((alt, _)) = &io.synced_alt {
                let alt = Arc::new(alt.clone());
                io.images.push(Image { step, kind: "power-norename", site, files: alt });
            }
        }
    }

    fn sched(&self, point: &'static str) {
        let name = thread_name();
        let mut s = self.sched.lock().unwrap();
        if !s.enabled || name == "main" {
            return;
        }
        s.log.push((name.clone(), point));
        s.parked.insert(name.clone(), point);
        self.sched_cv.notify_all();
        loop {
            if !s.enabled {
                break;
            }
            let r = s.release.get(&name).copied().unwrap_or(0);
            if r > 0 {
                s.release.insert(name.clone(), r - 1);
                break;
            }
            s = self.sched_cv.wait(s).unwrap();
        }
        s.parked.remove(&name);
        self.sched_cv.notify_all();
    }

    fn lock(&self, name: &'static str, mode: &'static str, phase: u8) {
        if !*self.lock_log.lock().unwrap() {
            return;
        }
        self.locks.lock().unwrap().push(LockEvent { thread: thread_name(), name, mode, phase });
    }

    fn page(&self, op: &'static str, page: u64, structure: &'static str) {
        if !*self.page_log.lock().unwrap() {
            return;
        }
        self.pages.lock().unwrap().push((op, page, structure));
    }

    fn hnsw_level(&self) -> Option<u8> {
        let mut l = self.hnsw_levels.lock().unwrap();
        match l.as_mut() {
            Some(v) if !v.is_empty() => Some(v.remove(0)),
            _ => None,
        }
    }

    fn ext_id(&self, counter: u64, computed: u64) -> u64 {
        let mut c = self.clock.lock().unwrap();
        match c.as_mut() {
            None => computed,
            Some(readings) => {
                let t = if readings.len() > 1 { readings.remove(0) } else { readings[0] };
                self.clock_log.lock().unwrap().push((counter, t));
                counter.wrapping_add(t)
            }
        }
    }
}
