//! Sessions executed through the public C ABI (the path of the Python / Node bindings):
//! auto-commit writes (`ndb_execute_write`), reads (`ndb_query`) and explicit transactions
//! (`ndb_begin_write` / `ndb_txn_query`* / `ndb_txn_commit` | `ndb_txn_rollback`).
//! After every case the C handle is closed, the graph is dumped through the storage read API of a
//! Rust handle, and the C handle is opened again (one handle at a time: the files are locked).  Events have the shape of the Rust-level
//! driver so that the same trace specification judges them.

use crate::capi::CDb;
use crate::cypher::{graph_dump, learn_rel_names};
use nervusdb_core::Db;
use serde_json::{Value as J, json};
use std::io::Write;
use std::path::Path;

fn res_of(status: &J) -> J {
    let ok = status["rc"] == 0;
    let cat = status["category"].as_i64().unwrap_or(0);
    json!({"out": if ok { "rows" } else { "err" }, "cols": [], "rows": [], "canon": [],
           "err": status["message"], "errclass": match cat { 0 => "none", 1 => "syntax", 2 => "execution", 3 => "storage", 4 => "compatibility", _ => "other" },
           "rc": status["rc"], "category": cat, "count": status.get("count").cloned().unwrap_or(json!(0)), "ms": 0})
}

fn dump_closed(path: &Path) -> J {
    match Db::open(path) {
        Ok(db) => {
            learn_rel_names(&db);
            let g = graph_dump(&db);
            drop(db);
            g
        }
        Err(e) => json!({"open_failed": e.to_string()}),
    }
}

pub fn run_sessions(sessions: &[J], out: &mut dyn Write, scratch: &Path) -> J {
    let mut n_cases = 0u64;
    for s in sessions {
        let sid = s["id"].as_str().unwrap_or("s").to_string();
        let dir = scratch.join("capi");
        let _ = std::fs::remove_dir_all(&dir);
        std::fs::create_dir_all(&dir).unwrap();
        let path = dir.join("g");
        let db0 = match CDb::open(&path.to_string_lossy()) {
            Ok(d) => d,
            Err(e) => {
                writeln!(out, "{}", json!({"ev": "session", "sid": sid, "open": e})).unwrap();
                continue;
            }
        };
        let db = &db0;
        let mut setup_res = Vec::new();
        for st in s["setup"].as_array().cloned().unwrap_or_default() {
            let r = db.execute_write(st.as_str().unwrap_or(""), &json!({}));
            setup_res.push(json!(if r["rc"] == 0 { "ok".to_string() } else { format!("err:{}", r["message"]) }));
        }
        let _ = db0.close();
        let g0 = dump_closed(&path);
        let mut cur: Option<CDb> = CDb::open(&path.to_string_lossy()).ok();
        writeln!(out, "{}", json!({"ev": "session", "sid": sid, "open": "ok", "setup": setup_res, "api": "c", "graph": g0})).unwrap();
        for c in s["cases"].as_array().cloned().unwrap_or_default() {
            let Some(db) = cur.take() else { break };
            n_cases += 1;
            let kind = c["kind"].as_str().unwrap_or("upd");
            let params = c.get("cparams").cloned().unwrap_or(json!({}));
            let mut ev = json!({"ev": "case", "sid": sid, "cid": c["cid"], "kind": kind, "mode": c["api"], "api": "c",
                                "query": c.get("query").cloned().unwrap_or(json!("")), "params": [],
                                "meta": c.get("meta").cloned().unwrap_or(json!({"none": true}))});
            match c["api"].as_str().unwrap_or("exec") {
                "exec" => {
                    let r = db.execute_write(c["query"].as_str().unwrap_or(""), &params);
                    ev["res"] = res_of(&r);
                }
                "query" => {
                    let r = db.query(c["query"].as_str().unwrap_or(""), &params);
                    let mut res = res_of(&r);
                    res["json_rows"] = r.get("rows").cloned().unwrap_or(json!(null));
                    ev["res"] = res;
                }
                "txn" => {
                    let mut results = Vec::new();
                    match db.begin() {
                        Err(e) => {
                            ev["res"] = res_of(&e);
                        }
                        Ok(txn) => {
                            for st in c["stmts"].as_array().cloned().unwrap_or_default() {
                                let r = txn.query(st["query"].as_str().unwrap_or(""), &st.get("cparams").cloned().unwrap_or(json!({})));
                                results.push(res_of(&r));
                            }
                            let end = c["end"].as_str().unwrap_or("commit");
                            let r = if end == "commit" { txn.commit() } else { txn.rollback() };
                            ev["res"] = res_of(&r);
                        }
                    }
                    ev["stmt_res"] = J::Array(results);
                    ev["stmts"] = c["stmts"].clone();
                    ev["end"] = c["end"].clone();
                }
                other => {
                    ev["res"] = json!({"out": "err", "err": format!("unknown api {other}"), "rows": [], "canon": [], "cols": []});
                }
            }
            ev["close"] = db.close();
            ev["graph"] = dump_closed(&path);
            writeln!(out, "{}", ev).unwrap();
            cur = match CDb::open(&path.to_string_lossy()) {
                Ok(d) => Some(d),
                Err(e) => {
                    writeln!(out, "{}", json!({"ev": "case", "sid": sid, "cid": -1, "kind": "reopen-failed", "mode": "c", "query": "",
                                                "params": [], "meta": {"none": true}, "res": res_of(&e)})).unwrap();
                    None
                }
            };
        }
        if let Some(db) = cur.take() {
            let _ = db.close();
        }
        let _ = std::fs::remove_dir_all(&dir);
    }
    json!({"sessions": sessions.len(), "cases": n_cases})
}
