//! Sessions executed through the public C ABI (the path of the Python / Node bindings):
//! auto-commit writes (`ndb_execute_write`), reads (`ndb_query`) and explicit transactions
//! (`ndb_begin_write` / `ndb_txn_query`* / `ndb_txn_commit` | `ndb_txn_rollback`).
//! After every case the C handle is closed, the graph is dumped through the storage read API of a
//! Rust handle, and the C handle is opened again (one handle at a time: the files are locked).  Events have the shape of the Rust-level
//! driver so that the same trace specification judges them.

use crate::capi::CDb;
use crate::cypher::{graph_dump, learn_rel_names};
use nervusdb_core::Db;
use serde_json::{Value as J, json};
use std::io::Write;
use std::path::Path;

fn res_of(status: &J) -> J {
    let ok = status["rc"] == 0;
    let cat = status["category"].as_i64().unwrap_or(0);
    json!({"out": if ok { "rows" } else { "err" }, "cols": [], "rows": [], "canon": [],
           "err": status["message"], "errclass": match cat { 0 => "none", 1 => "syntax", 2 => "execution", 3 => "storage", 4 => "compatibility", _ => "other" },
           "rc": status["rc"], "category": cat, "count": status.get("count").cloned().unwrap_or(json!(0)), "ms": 0})
}

/// JSON value returned by the C API -> tagged value
fn tv_from_json(v: &J) -> J {
    use nervusdb_query::Value;
    fn to_value(v: &J) -> Value {
        match v {
            J::Null => Value::Null,
            J::Bool(b) => Value::Bool(*b),
            J::Number(n) => {
                if let Some(i) = n.as_i64() { Value::Int(i) } else { Value::Float(n.as_f64().unwrap_or(f64::NAN)) }
            }
            J::String(s) => Value::String(s.clone()),
            J::Array(a) => Value::List(a.iter().map(to_value).collect()),
            J::Object(o) => Value::Map(o.iter().map(|(k, v)| (k.clone(), to_value(v))).collect()),
        }
    }
    crate::cypher::tv(&to_value(v)).0
}

/// The graph as seen through the C handle itself (three Cypher reads), in the shape of `graph_dump`.
fn dump_via_cypher(db: &CDb) -> J {
    let nodes_q = db.query("MATCH (n) RETURN id(n) AS id, labels(n) AS labels, properties(n) AS props", &json!({}));
    let rels_q = db.query("MATCH (a)-[r]->(b) RETURN id(a) AS src, type(r) AS type, id(b) AS dst, properties(r) AS props", &json!({}));
    let inn_q = db.query("MATCH (b)<-[r]-(a) RETURN id(a) AS src, type(r) AS type, id(b) AS dst", &json!({}));
    if nodes_q["rc"] != 0 || rels_q["rc"] != 0 || inn_q["rc"] != 0 {
        return json!({"dump_failed": [nodes_q["message"], rels_q["message"], inn_q["message"]]});
    }
    let props = |o: &J| -> Vec<J> {
        o.as_object().map(|m| m.iter().filter(|(_, v)| !v.is_null()).map(|(k, v)| json!([k, tv_from_json(v)])).collect()).unwrap_or_default()
    };
    let mut nodes: Vec<J> = nodes_q["rows"].as_array().cloned().unwrap_or_default().iter()
        .map(|r| json!({"id": r["id"], "labels": r["labels"], "props": props(&r["props"])})).collect();
    nodes.sort_by_key(|n| n["id"].as_u64().unwrap_or(0));
    let rels: Vec<J> = rels_q["rows"].as_array().cloned().unwrap_or_default().iter().map(|r| {
        let t = r["type"].as_str().unwrap_or("").to_string();
        json!({"src": r["src"], "type": t, "tcp": t.chars().map(|c| c as u32).collect::<Vec<u32>>(), "dst": r["dst"],
               "props": props(&r["props"]), "dead": false})
    }).collect();
    let inn: Vec<J> = inn_q["rows"].as_array().cloned().unwrap_or_default().iter().map(|r| json!([r["src"], r["type"], r["dst"]])).collect();
    json!({"nodes": nodes, "rels": rels, "inn": inn})
}

/// plain JSON (the params_json of the C API) -> engine value, the way the C API converts it
fn plain_json_to_value(v: &J) -> nervusdb_query::Value {
    use nervusdb_query::Value;
    match v {
        J::Null => Value::Null,
        J::Bool(b) => Value::Bool(*b),
        J::Number(n) => if let Some(i) = n.as_i64() { Value::Int(i) } else { Value::Float(n.as_f64().unwrap_or(f64::NAN)) },
        J::String(s) => Value::String(s.clone()),
        J::Array(a) => Value::List(a.iter().map(plain_json_to_value).collect()),
        J::Object(o) => Value::Map(o.iter().map(|(k, v)| (k.clone(), plain_json_to_value(v))).collect()),
    }
}

/// canonical text of a value as returned by the C API (JSON) ...
fn canon_json(v: &J) -> String {
    match v {
        J::Null => "null".into(),
        J::Bool(b) => format!("b{b}"),
        J::Number(n) => {
            if let Some(i) = n.as_i64() { format!("i{i}") } else { format!("f{:016x}", n.as_f64().unwrap_or(f64::NAN).to_bits()) }
        }
        J::String(s) => format!("s{s:?}"),
        J::Array(a) => format!("[{}]", a.iter().map(canon_json).collect::<Vec<_>>().join(",")),
        J::Object(o) => match o.get("type").and_then(|t| t.as_str()) {
            Some("float") => {
                let x = match o["value"].as_str().unwrap_or("") { "NaN" => f64::NAN, "Infinity" => f64::INFINITY, "-Infinity" => f64::NEG_INFINITY, _ => 0.0 };
                format!("f{:016x}", x.to_bits())
            }
            Some("node") if o.contains_key("labels") => {
                let mut labels: Vec<String> = o["labels"].as_array().map(|a| a.iter().map(|x| x.as_str().unwrap_or("?").to_string()).collect()).unwrap_or_default();
                labels.sort();
                format!("node{}|{}|{}", o["id"], labels.join(","), canon_json(&o["properties"]))
            }
            Some("node_id") => format!("nodeid{}", o["value"]),
            Some("relationship") if o.contains_key("rel_type") =>
                format!("rel{}:{}:{}|{}", o["src"], o["rel_type"].as_str().unwrap_or("?"), o["dst"], canon_json(&o["properties"])),
            Some("edge_key") => format!("edgekey{}:{}:{}", o["src"], o["rel"], o["dst"]),
            Some("path") if o.contains_key("relationships") => format!("path{}{}", canon_json(&o["nodes"]), canon_json(&o["relationships"])),
            _ => format!("{{{}}}", o.iter().map(|(k, v)| format!("{k:?}:{}", canon_json(v))).collect::<Vec<_>>().join(",")),
        },
    }
}

/// ... of a (reified) value from the Rust API in the same notation: entities with labels / type and properties,
/// unreified references under names of their own ...
fn canon_value(v: &nervusdb_query::Value) -> String {
    use nervusdb_query::Value;
    let props = |m: &std::collections::BTreeMap<String, Value>| format!("{{{}}}", m.iter().map(|(k, v)| format!("{k:?}:{}", canon_value(v))).collect::<Vec<_>>().join(","));
    match v {
        Value::List(l) => format!("[{}]", l.iter().map(canon_value).collect::<Vec<_>>().join(",")),
        Value::Map(m) => props(m),
        Value::Node(n) => { let mut l = n.labels.clone(); l.sort(); format!("node{}|{}|{}", n.id, l.join(","), props(&n.properties)) }
        Value::NodeId(id) => format!("nodeid{id}"),
        Value::Relationship(r) => format!("rel{}:{}:{}|{}", r.key.src, r.rel_type, r.key.dst, props(&r.properties)),
        Value::EdgeKey(k) => format!("edgekey{}:{}:{}", k.src, k.rel, k.dst),
        Value::ReifiedPath(p) => format!("path[{}][{}]",
            p.nodes.iter().map(|n| canon_value(&Value::Node(n.clone()))).collect::<Vec<_>>().join(","),
            p.relationships.iter().map(|r| canon_value(&Value::Relationship(r.clone()))).collect::<Vec<_>>().join(",")),
        scalar => canon_tv(&crate::cypher::tv(scalar).0),
    }
}

/// ... and of a tagged value from the Rust API
fn canon_tv(t: &J) -> String {
    let a = t.as_array().unwrap();
    match a[0].as_str().unwrap_or("") {
        "null" => "null".into(),
        "bool" => format!("b{}", a[1]),
        "int" => {
            let mut v: i128 = 0;
            for limb in a[1]["m"].as_array().unwrap().iter().rev() {
                v = v * 10000 + limb.as_i64().unwrap() as i128;
            }
            format!("i{}", v * a[1]["s"].as_i64().unwrap() as i128)
        }
        "float" => {
            let f = &a[1];
            let x = match f["k"].as_str().unwrap_or("") {
                "nan" => f64::NAN,
                "pinf" => f64::INFINITY,
                "ninf" => f64::NEG_INFINITY,
                "other" => f64::from_bits(u64::from_str_radix(f["bits"].as_str().unwrap_or("0"), 16).unwrap_or(0)),
                _ => {
                    let mut v: i128 = 0;
                    for limb in f["n"]["m"].as_array().unwrap().iter().rev() {
                        v = v * 10000 + limb.as_i64().unwrap() as i128;
                    }
                    let n = (v * f["n"]["s"].as_i64().unwrap() as i128) as f64;
                    if v == 0 && f["neg0"].as_bool().unwrap_or(false) { -0.0 } else { n / 2f64.powi(f["e"].as_i64().unwrap() as i32) }
                }
            };
            format!("f{:016x}", x.to_bits())
        }
        "str" => {
            let s: String = a[1].as_array().unwrap().iter().map(|c| char::from_u32(c.as_u64().unwrap() as u32).unwrap()).collect();
            format!("s{s:?}")
        }
        "list" => format!("[{}]", a[1].as_array().unwrap().iter().map(canon_tv).collect::<Vec<_>>().join(",")),
        "map" => format!("{{{}}}", a[1].as_array().unwrap().iter().map(|kv| {
            let k: String = kv[0].as_array().unwrap().iter().map(|c| char::from_u32(c.as_u64().unwrap() as u32).unwrap()).collect();
            format!("{k:?}:{}", canon_tv(&kv[1]))
        }).collect::<Vec<_>>().join(",")),
        "node" => format!("node{}", a[1]),
        "rel" => format!("rel{}:{}:{}", a[1][0], a[1][1].as_str().unwrap_or("?"), a[1][2]),
        other => format!("other:{other}"),
    }
}

fn dump_closed(path: &Path) -> J {
    match Db::open(path) {
        Ok(db) => {
            learn_rel_names(&db);
            let g = graph_dump(&db);
            drop(db);
            g
        }
        Err(e) => json!({"open_failed": e.to_string()}),
    }
}

pub fn run_sessions(sessions: &[J], out: &mut dyn Write, scratch: &Path) -> J {
    let mut n_cases = 0u64;
    for s in sessions {
        let sid = s["id"].as_str().unwrap_or("s").to_string();
        let dir = scratch.join("capi");
        let _ = std::fs::remove_dir_all(&dir);
        std::fs::create_dir_all(&dir).unwrap();
        let path = dir.join("g");
        let db0 = match CDb::open(&path.to_string_lossy()) {
            Ok(d) => d,
            Err(e) => {
                writeln!(out, "{}", json!({"ev": "session", "sid": sid, "open": e})).unwrap();
                continue;
            }
        };
        let db = &db0;
        // C34: an identical database driven through the Rust API (its own files)
        let twin: Option<Db> = if s["twin"].as_bool().unwrap_or(false) {
            let tdir = scratch.join("capi_twin");
            let _ = std::fs::remove_dir_all(&tdir);
            std::fs::create_dir_all(&tdir).unwrap();
            Db::open(tdir.join("g")).ok()
        } else { None };
        let mut setup_res = Vec::new();
        for st in s["setup"].as_array().cloned().unwrap_or_default() {
            let r = db.execute_write(st.as_str().unwrap_or(""), &json!({}));
            setup_res.push(json!(if r["rc"] == 0 { "ok".to_string() } else { format!("err:{}", r["message"]) }));
            if let Some(t) = &twin {
                let _ = crate::cypher::run_write(t, st.as_str().unwrap_or(""), &nervusdb_query::Params::new());
            }
        }
        // the handle stays open for the whole session (state kept inside the engine between statements is part
        // of what is observed); only the final dump goes through a fresh Rust handle
        let g0 = dump_via_cypher(&db0);
        let mut cur: Option<CDb> = Some(db0);
        writeln!(out, "{}", json!({"ev": "session", "sid": sid, "open": "ok", "setup": setup_res, "api": "c", "graph": g0})).unwrap();
        for c in s["cases"].as_array().cloned().unwrap_or_default() {
            let Some(db) = cur.take() else { break };
            n_cases += 1;
            let kind = c["kind"].as_str().unwrap_or("upd");
            let params = c.get("cparams").cloned().unwrap_or(json!({}));
            let mut ev = json!({"ev": "case", "sid": sid, "cid": c["cid"], "kind": kind, "mode": c["api"], "api": "c",
                                "query": c.get("query").cloned().unwrap_or(json!("")), "params": [],
                                "meta": c.get("meta").cloned().unwrap_or(json!({"none": true}))});
            match c["api"].as_str().unwrap_or("exec") {
                "exec" => {
                    let r = db.execute_write(c["query"].as_str().unwrap_or(""), &params);
                    ev["res"] = res_of(&r);
                }
                "query" => {
                    let r = db.query(c["query"].as_str().unwrap_or(""), &params);
                    let mut res = res_of(&r);
                    res["json_rows"] = r.get("rows").cloned().unwrap_or(json!(null));
                    ev["res"] = res;
                }
                "parity" => {
                    // the same read through ndb_query and through prepare + execute_streaming on the twin
                    let r = db.query(c["query"].as_str().unwrap_or(""), &params);
                    let mut cres = res_of(&r);
                    let mut crow_strs: Vec<String> = Vec::new();
                    if let Some(rows) = r.get("rows").and_then(|x| x.as_array()) {
                        for row in rows {
                            let mut cols: Vec<String> = row.as_object().map(|m| m.iter().map(|(k, v)| format!("{k}={}", canon_json(v))).collect()).unwrap_or_default();
                            cols.sort();
                            crow_strs.push(cols.join(";"));
                        }
                    }
                    cres["rowstrs"] = json!(crow_strs);
                    ev["cres"] = cres;
                    if let Some(t) = &twin {
                        learn_rel_names(t);
                        let mut p = nervusdb_query::Params::new();
                        if let Some(o) = params.as_object() {
                            for (k, v) in o {
                                p.insert(k.clone(), plain_json_to_value(v));
                            }
                        }
                        let o = crate::cypher::run_read(t, c["query"].as_str().unwrap_or(""), &p);
                        let mut rres = o.to_json();
                        // the documented Rust path: execute_streaming, every row reified against the snapshot
                        let rs: Vec<String> = std::panic::catch_unwind(std::panic::AssertUnwindSafe(|| -> Vec<String> {
                            let mut out = Vec::new();
                            if let Ok(q) = nervusdb_query::prepare(c["query"].as_str().unwrap_or("")) {
                                let snap = t.snapshot();
                                for r in q.execute_streaming(&snap, &p) {
                                    let Ok(row) = r else { break };
                                    let Ok(row) = row.reify(&snap) else { out.push("reify-failed".into()); continue };
                                    let mut cols: Vec<String> = row.columns().iter().map(|(k, v)| format!("{k}={}", canon_value(v))).collect();
                                    cols.sort();
                                    out.push(cols.join(";"));
                                }
                            }
                            out
                        })).unwrap_or_else(|_| vec!["panic".into()]);
                        rres["rowstrs"] = json!(rs);
                        ev["res"] = rres;
                    } else {
                        ev["res"] = json!({"out": "err", "err": "no twin", "rowstrs": []});
                    }
                }
                "accept" => {
                    // the same statement offered to the read entry point and to the write entry point
                    let rq = db.query(c["query"].as_str().unwrap_or(""), &params);
                    let rw = db.execute_write(c["query"].as_str().unwrap_or(""), &params);
                    // a refusal by the entry point's read/write gate (as opposed to a failure while executing)
                    let gate = |r: &J| -> bool {
                        let m = r["message"].as_str().unwrap_or("");
                        m.contains("does not accept write statements") || m.contains("expects a write statement")
                    };
                    let mut jq = res_of(&rq);
                    jq["gate_refused"] = json!(gate(&rq));
                    let mut jw = res_of(&rw);
                    jw["gate_refused"] = json!(gate(&rw));
                    ev["res_query"] = jq;
                    ev["res_exec"] = jw;
                    ev["res"] = res_of(&rw);
                }
                "txn" => {
                    let mut results = Vec::new();
                    match db.begin() {
                        Err(e) => {
                            ev["res"] = res_of(&e);
                        }
                        Ok(txn) => {
                            for st in c["stmts"].as_array().cloned().unwrap_or_default() {
                                let r = txn.query(st["query"].as_str().unwrap_or(""), &st.get("cparams").cloned().unwrap_or(json!({})));
                                results.push(res_of(&r));
                            }
                            let end = c["end"].as_str().unwrap_or("commit");
                            let r = if end == "commit" { txn.commit() } else { txn.rollback() };
                            ev["res"] = res_of(&r);
                        }
                    }
                    ev["stmt_res"] = J::Array(results);
                    ev["stmts"] = c["stmts"].clone();
                    ev["end"] = c["end"].clone();
                }
                other => {
                    ev["res"] = json!({"out": "err", "err": format!("unknown api {other}"), "rows": [], "canon": [], "cols": []});
                }
            }
            ev["graph"] = dump_via_cypher(&db);
            writeln!(out, "{}", ev).unwrap();
            cur = Some(db);
        }
        if let Some(db) = cur.take() {
            let closed = db.close();
            // after the session: the storage-level dump of the closed files must agree with the last Cypher dump
            writeln!(out, "{}", json!({"ev": "case", "sid": sid, "cid": 100000, "kind": "cfinal", "mode": "c", "api": "c", "query": "#close",
                                        "params": [], "meta": {"none": true}, "res": res_of(&closed), "graph": dump_closed(&path)})).unwrap();
        }
        let _ = std::fs::remove_dir_all(&dir);
    }
    json!({"sessions": sessions.len(), "cases": n_cases})
}
