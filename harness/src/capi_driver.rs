//! Sessions executed through the public C ABI (the path of the Python / Node bindings):
//! auto-commit writes (`ndb_execute_write`), reads (`ndb_query`) and explicit transactions
//! (`ndb_begin_write` / `ndb_txn_query`* / `ndb_txn_commit` | `ndb_txn_rollback`).
//! After every case the C handle is closed, the graph is dumped through the storage read API of a
//! Rust handle, and the C handle is opened again (one handle at a time: the files are locked).  Events have the shape of the Rust-level
//! driver so that the same trace specification judges them.

use crate::capi::CDb;
use crate::cypher::{graph_dump, learn_rel_names};
use nervusdb_core::Db;
use serde_json::{Value as J, json};
use std::io::Write;
use std::path::Path;

fn res_of(status: &J) -> J {
    let ok = status["rc"] == 0;
    let cat = status["category"].as_i64().unwrap_or(0);
    json!({"out": if ok { "rows" } else { "err" }, "cols": [], "rows": [], "canon": [],
           "err": status["message"], "errclass": match cat { 0 => "none", 1 => "syntax", 2 => "execution", 3 => "storage", 4 => "compatibility", _ => "other" },
           "rc": status["rc"], "category": cat, "count": status.get("count").cloned().unwrap_or(json!(0)), "ms": 0})
}

/// JSON value returned by the C API -> tagged value
fn tv_from_json(v: &J) -> J {
    use nervusdb_query::Value;
    fn to_value(v: &J) -> Value {
        match v {
            J::Null => Value::Null,
            J::Bool(b) => Value::Bool(*b),
            J::Number(n) => {
                if let Some(i) = n.as_i64() { Value::Int(i) } else { Value::Float(n.as_f64().unwrap_or(f64::NAN)) }
            }
            J::String(s) => Value::String(s.clone()),
            J::Array(a) => Value::List(a.iter().map(to_value).collect()),
            J::Object(o) => Value::Map(o.iter().map(|(k, v)| (k.clone(), to_value(v))).collect()),
        }
    }
    crate::cypher::tv(&to_value(v)).0
}

/// The graph as seen through the C handle itself (three Cypher reads), in the shape of `graph_dump`.
fn dump_via_cypher(db: &CDb) -> J {
    let nodes_q = db.query("MATCH (n) RETURN id(n) AS id, labels(n) AS labels, properties(n) AS props", &json!({}));
    let rels_q = db.query("MATCH (a)-[r]->(b) RETURN id(a) AS src, type(r) AS type, id(b) AS dst, properties(r) AS props", &json!({}));
    let inn_q = db.query("MATCH (b)<-[r]-(a) RETURN id(a) AS src, type(r) AS type, id(b) AS dst", &json!({}));
    if nodes_q["rc"] != 0 || rels_q["rc"] != 0 || inn_q["rc"] != 0 {
        return json!({"dump_failed": [nodes_q["message"], rels_q["message"], inn_q["message"]]});
    }
    let props = |o: &J| -> Vec<J> {
        o.as_object().map(|m| m.iter().filter(|(_, v)| !v.is_null()).map(|(k, v)| json!([k, tv_from_json(v)])).collect()).unwrap_or_default()
    };
    let mut nodes: Vec<J> = nodes_q["rows"].as_array().cloned().unwrap_or_default().iter()
        .map(|r| json!({"id": r["id"], "labels": r["labels"], "props": props(&r["props"])})).collect();
    nodes.sort_by_key(|n| n["id"].as_u64().unwrap_or(0));
    let rels: Vec<J> = rels_q["rows"].as_array().cloned().unwrap_or_default().iter().map(|r| {
        let t = r["type"].as_str().unwrap_or("").to_string();
        json!({"src": r["src"], "type": t, "tcp": t.chars().map(|c| c as u32).collect::<Vec<u32>>(), "dst": r["dst"],
               "props": props(&r["props"]), "dead": false})
    }).collect();
    let inn: Vec<J> = inn_q["rows"].as_array().cloned().unwrap_or_default().iter().map(|r| json!([r["src"], r["type"], r["dst"]])).collect();
    json!({"nodes": nodes, "rels": rels, "inn": inn})
}

fn dump_closed(path: &Path) -> J {
    match Db::open(path) {
        Ok(db) => {
            learn_rel_names(&db);
            let g = graph_dump(&db);
            drop(db);
            g
        }
        Err(e) => json!({"open_failed": e.to_string()}),
    }
}

pub fn run_sessions(sessions: &[J], out: &mut dyn Write, scratch: &Path) -> J {
    let mut n_cases = 0u64;
    for s in sessions {
        let sid = s["id"].as_str().unwrap_or("s").to_string();
        let dir = scratch.join("capi");
        let _ = std::fs::remove_dir_all(&dir);
        std::fs::create_dir_all(&dir).unwrap();
        let path = dir.join("g");
        let db0 = match CDb::open(&path.to_string_lossy()) {
            Ok(d) => d,
            Err(e) => {
                writeln!(out, "{}", json!({"ev": "session", "sid": sid, "open": e})).unwrap();
                continue;
            }
        };
        let db = &db0;
        let mut setup_res = Vec::new();
        for st in s["setup"].as_array().cloned().unwrap_or_default() {
            let r = db.execute_write(st.as_str().unwrap_or(""), &json!({}));
            setup_res.push(json!(if r["rc"] == 0 { "ok".to_string() } else { format!("err:{}", r["message"]) }));
        }
        // the handle stays open for the whole session (state kept inside the engine between statements is part
        // of what is observed); only the final dump goes through a fresh Rust handle
        let g0 = dump_via_cypher(&db0);
        let mut cur: Option<CDb> = Some(db0);
        writeln!(out, "{}", json!({"ev": "session", "sid": sid, "open": "ok", "setup": setup_res, "api": "c", "graph": g0})).unwrap();
        for c in s["cases"].as_array().cloned().unwrap_or_default() {
            let Some(db) = cur.take() else { break };
            n_cases += 1;
            let kind = c["kind"].as_str().unwrap_or("upd");
            let params = c.get("cparams").cloned().unwrap_or(json!({}));
            let mut ev = json!({"ev": "case", "sid": sid, "cid": c["cid"], "kind": kind, "mode": c["api"], "api": "c",
                                "query": c.get("query").cloned().unwrap_or(json!("")), "params": [],
                                "meta": c.get("meta").cloned().unwrap_or(json!({"none": true}))});
            match c["api"].as_str().unwrap_or("exec") {
                "exec" => {
                    let r = db.execute_write(c["query"].as_str().unwrap_or(""), &params);
                    ev["res"] = res_of(&r);
                }
                "query" => {
                    let r = db.query(c["query"].as_str().unwrap_or(""), &params);
                    let mut res = res_of(&r);
                    res["json_rows"] = r.get("rows").cloned().unwrap_or(json!(null));
                    ev["res"] = res;
                }
                "txn" => {
                    let mut results = Vec::new();
                    match db.begin() {
                        Err(e) => {
                            ev["res"] = res_of(&e);
                        }
                        Ok(txn) => {
                            for st in c["stmts"].as_array().cloned().unwrap_or_default() {
                                let r = txn.query(st["query"].as_str().unwrap_or(""), &st.get("cparams").cloned().unwrap_or(json!({})));
                                results.push(res_of(&r));
                            }
                            let end = c["end"].as_str().unwrap_or("commit");
                            let r = if end == "commit" { txn.commit() } else { txn.rollback() };
                            ev["res"] = res_of(&r);
                        }
                    }
                    ev["stmt_res"] = J::Array(results);
                    ev["stmts"] = c["stmts"].clone();
                    ev["end"] = c["end"].clone();
                }
                other => {
                    ev["res"] = json!({"out": "err", "err": format!("unknown api {other}"), "rows": [], "canon": [], "cols": []});
                }
            }
            ev["graph"] = dump_via_cypher(&db);
            writeln!(out, "{}", ev).unwrap();
            cur = Some(db);
        }
        if let Some(db) = cur.take() {
            let closed = db.close();
            // after the session: the storage-level dump of the closed files must agree with the last Cypher dump
            writeln!(out, "{}", json!({"ev": "case", "sid": sid, "cid": 100000, "kind": "cfinal", "mode": "c", "api": "c", "query": "#close",
                                        "params": [], "meta": {"none": true}, "res": res_of(&closed), "graph": dump_closed(&path)})).unwrap();
        }
        let _ = std::fs::remove_dir_all(&dir);
    }
    json!({"sessions": sessions.len(), "cases": n_cases})
}
