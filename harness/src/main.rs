mod btree;
mod capi;
mod capi_driver;
mod cypher;
mod sched;
mod dump;
mod obs;
mod pages;
mod storage;
mod val;
mod vectors;

use serde_json::{Value, json};
use std::collections::HashMap;
use std::io::{BufRead, BufReader, BufWriter};
use std::path::PathBuf;

fn parse_args(args: &[String]) -> HashMap<String, String> {
    let mut m = HashMap::new();
    let mut i = 0;
    while i < args.len() {
        if let Some(k) = args[i].strip_prefix("--") {
            if i + 1 < args.len() && !args[i + 1].starts_with("--") {
                m.insert(k.to_string(), args[i + 1].clone());
                i += 2;
            } else {
                m.insert(k.to_string(), "1".to_string());
                i += 1;
            }
        } else {
            i += 1;
        }
    }
    m
}

fn read_ndjson(path: &str) -> Vec<Value> {
    let f = std::fs::File::open(path).unwrap_or_else(|e| panic!("open {path}: {e}"));
    BufReader::new(f)
        .lines()
        .map(|l| l.unwrap())
        .filter(|l| !l.trim().is_empty())
        .map(|l| serde_json::from_str(&l).expect("history json"))
        .collect()
}

fn main() {
    // Panics of the code under test are data; keep the default hook quiet.
    if std::env::var("NVX_PANIC").is_err() {
        std::panic::set_hook(Box::new(|_| {}));
    }
    let args: Vec<String> = std::env::args().collect();
    if args.len() < 2 {
        eprintln!("usage: nvx <storage|...> [--key value]...");
        std::process::exit(2);
    }
    let a = parse_args(&args[2..]);
    let scratch = PathBuf::from(a.get("scratch").cloned().unwrap_or_else(|| "work/scratch".into()));
    std::fs::create_dir_all(&scratch).unwrap();
    let obs = obs::Obs::new();
    nervusdb_storage::verif_hooks::install(Some(obs.clone()));
    let _ = obs::GLOBAL.set(obs.clone());

    match args[1].as_str() {
        "storage" => {
            let histories = read_ndjson(a.get("in").expect("--in"));
            let out = std::fs::File::create(a.get("out").expect("--out")).unwrap();
            let mut ctx = storage::Ctx {
                obs: obs.clone(),
                out: Box::new(BufWriter::new(out)),
                scratch,
                mode: a.get("mode").cloned().unwrap_or_else(|| "plain".into()),
                extended: a.contains_key("extended"),
                stats: storage::Stats::default(),
            };
            for h in &histories {
                storage::run_history(&mut ctx, h);
            }
            let s = &ctx.stats;
            println!(
                "{}",
                json!({"histories": s.histories, "ops": s.ops, "dumps": s.dumps, "images": s.images,
                       "images_distinct": s.images_distinct, "faults": s.faults, "io_steps": s.io_steps})
            );
        }
        "vectors" => {
            let scenarios = read_ndjson(a.get("in").expect("--in"));
            let out = std::fs::File::create(a.get("out").expect("--out")).unwrap();
            let mut w = BufWriter::new(out);
            println!("{}", vectors::run(&scenarios, &mut w, &scratch));
        }
        "pages" => {
            let scenarios = read_ndjson(a.get("in").expect("--in"));
            let out = std::fs::File::create(a.get("out").expect("--out")).unwrap();
            let mut w = BufWriter::new(out);
            println!("{}", pages::run(&obs, &scenarios, &mut w, &scratch));
        }
        "btree" => {
            let seqs = read_ndjson(a.get("in").expect("--in"));
            let out = std::fs::File::create(a.get("out").expect("--out")).unwrap();
            let mut w = BufWriter::new(out);
            let stats = btree::run(&seqs, &mut w, &scratch);
            println!("{stats}");
        }
        "cypher" => {
            let sessions = read_ndjson(a.get("in").expect("--in"));
            let out = std::fs::File::create(a.get("out").expect("--out")).unwrap();
            let mut w = BufWriter::new(out);
            // sessions marked "api": "c" go through the public C ABI, the others through the Rust API
            let (mut ns, mut nc, mut ne, mut nr) = (0u64, 0u64, 0u64, 0u64);
            for s in &sessions {
                let st = if s["api"] == "c" {
                    capi_driver::run_sessions(std::slice::from_ref(s), &mut w, &scratch)
                } else {
                    cypher::run_sessions(std::slice::from_ref(s), &mut w, &scratch)
                };
                ns += 1;
                nc += st["cases"].as_u64().unwrap_or(0);
                ne += st["errors"].as_u64().unwrap_or(0);
                nr += st["rows"].as_u64().unwrap_or(0);
            }
            println!("{}", json!({"sessions": ns, "cases": nc, "errors": ne, "rows": nr}));
        }
        "snap" | "incr" => {
            let scenarios = read_ndjson(a.get("in").expect("--in"));
            let out = std::fs::File::create(a.get("out").expect("--out")).unwrap();
            let mut w = BufWriter::new(out);
            let stats = if args[1] == "snap" { sched::run_snap(&obs, &scenarios, &mut w, &scratch) }
                        else { sched::run_incr(&obs, &scenarios, &mut w, &scratch) };
            println!("{stats}");
        }
        "locks" => {
            let out = std::fs::File::create(a.get("out").expect("--out")).unwrap();
            let mut w = BufWriter::new(out);
            let t: usize = a.get("threads").map(|x| x.parse().unwrap()).unwrap_or(8);
            let n: usize = a.get("iters").map(|x| x.parse().unwrap()).unwrap_or(150);
            let r = sched::run_locks(&obs, &mut w, &scratch, t, n);
            use std::io::Write as _;
            w.flush().unwrap();
            println!("{}", r);
        }
        "backup" => {
            let scenarios = read_ndjson(a.get("in").expect("--in"));
            let out = std::fs::File::create(a.get("out").expect("--out")).unwrap();
            let mut w = BufWriter::new(out);
            println!("{}", sched::run_backup(&obs, &scenarios, &mut w, &scratch));
        }
        "handles" => {
            let scenarios = read_ndjson(a.get("in").expect("--in"));
            let out = std::fs::File::create(a.get("out").expect("--out")).unwrap();
            let mut w = BufWriter::new(out);
            println!("{}", sched::run_handles(&scenarios, &mut w, &scratch));
        }
        "child-open" => {
            sched::child_open(std::path::Path::new(a.get("dir").expect("--dir")));
        }
        "keys" => {
            let inputs = read_ndjson(a.get("in").expect("--in"));
            let out = std::fs::File::create(a.get("out").expect("--out")).unwrap();
            let mut w = BufWriter::new(out);
            let stats = cypher::run_keys(&inputs, &mut w);
            println!("{stats}");
        }
        other => {
            eprintln!("unknown subcommand {other}");
            std::process::exit(2);
        }
    }
}
