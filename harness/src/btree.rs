//! B-tree driver (C26): replays insert/delete sequences on the real `BTree` over a real pager
//! and records, after every step, the full cursor scan, the lookup of every key of the
//! alphabet and the delete result.  Key length selects the fan-out (3500 bytes: 2 cells per
//! page, 2000 bytes: 4, 8 bytes: several hundred).

use nervusdb_storage::index::btree::BTree;
use nervusdb_storage::pager::Pager;
use serde_json::{Value, json};
use std::io::Write;
use std::panic::{AssertUnwindSafe, catch_unwind};
use std::path::Path;

fn key_bytes(k: u64, keylen: usize) -> Vec<u8> {
    let mut v = (k as u32).to_be_bytes().to_vec();
    while v.len() < keylen {
        v.push(b'x');
    }
    v
}

fn key_of(bytes: &[u8]) -> u64 {
    u32::from_be_bytes(bytes[0..4].try_into().unwrap()) as u64
}

fn scan(tree: &BTree, pager: &Pager, from: &[u8], limit: usize) -> Result<Vec<(u64, u64)>, String> {
    let mut cur = tree.cursor_lower_bound(pager, from).map_err(|e| e.to_string())?;
    let mut out = Vec::new();
    while cur.is_valid().map_err(|e| e.to_string())? {
        let k = cur.key().map_err(|e| e.to_string())?;
        let p = cur.payload().map_err(|e| e.to_string())?;
        out.push((key_of(&k), p));
        if out.len() >= limit {
            break;
        }
        if !cur.advance().map_err(|e| e.to_string())? {
            break;
        }
    }
    Ok(out)
}

pub fn run(seqs: &[Value], out: &mut dyn Write, scratch: &Path) -> Value {
    let mut n_ops = 0u64;
    let mut n_obs = 0u64;
    for s in seqs {
        let id = s["id"].as_str().unwrap_or("s");
        let keylen = s["keylen"].as_u64().unwrap_or(2000) as usize;
        let every = s["observe_every"].as_u64().unwrap_or(1);
        let keys: Vec<u64> = s["keys"].as_array().map(|a| a.iter().map(|x| x.as_u64().unwrap()).collect()).unwrap_or_default();
        let dir = scratch.join("bt");
        let _ = std::fs::remove_dir_all(&dir);
        std::fs::create_dir_all(&dir).unwrap();
        let path = dir.join("t.ndb");
        let mut pager = Pager::open(&path).unwrap();
        let mut tree = BTree::create(&mut pager).unwrap();
        writeln!(out, "{}", json!({"ev": "reset", "id": id, "keylen": keylen})).unwrap();
        let ops = s["ops"].as_array().cloned().unwrap_or_default();
        for (i, op) in ops.iter().enumerate() {
            let a = op.as_array().unwrap();
            let name = a[0].as_str().unwrap();
            n_ops += 1;
            let mut ev = json!({"ev": "op", "op": name});
            let r = catch_unwind(AssertUnwindSafe(|| -> Result<Value, String> {
                match name {
                    "ins" => {
                        let (k, p) = (a[1].as_u64().unwrap(), a[2].as_u64().unwrap());
                        tree.insert(&mut pager, &key_bytes(k, keylen), p).map_err(|e| e.to_string())?;
                        Ok(json!("ok"))
                    }
                    "del" => {
                        let (k, p) = (a[1].as_u64().unwrap(), a[2].as_u64().unwrap());
                        let found = tree.delete(&mut pager, &key_bytes(k, keylen), p).map_err(|e| e.to_string())?;
                        Ok(json!(if found { "found" } else { "missed" }))
                    }
                    "reopen" => {
                        let root = tree.root();
                        pager.sync().map_err(|e| e.to_string())?;
                        // one handle per file at a time: park on a scratch file while the old handle drops
                        let parked = Pager::open(&dir.join("parked.ndb")).map_err(|e| e.to_string())?;
                        drop(std::mem::replace(&mut pager, parked));
                        pager = Pager::open(&path).map_err(|e| e.to_string())?;
                        tree = BTree::load(root);
                        Ok(json!("ok"))
                    }
                    _ => Err("unknown op".into()),
                }
            }));
            if name != "reopen" {
                ev["k"] = a[1].clone();
                ev["p"] = a[2].clone();
            } else {
                ev["k"] = json!(0);
                ev["p"] = json!(0);
            }
            ev["res"] = match r {
                Ok(Ok(v)) => v,
                Ok(Err(e)) => json!(format!("err:{e}")),
                Err(_) => json!("panic"),
            };
            writeln!(out, "{}", ev).unwrap();
            if (i as u64 + 1) % every == 0 || i + 1 == ops.len() {
                n_obs += 1;
                let r = catch_unwind(AssertUnwindSafe(|| -> Result<Value, String> {
                    let full = scan(&tree, &pager, &[], usize::MAX)?;
                    let mut lookups = Vec::new();
                    for &k in &keys {
                        let kb = key_bytes(k, keylen);
                        let first = scan(&tree, &pager, &kb, 1)?;
                        match first.first() {
                            Some((fk, fp)) if *fk == k => lookups.push(json!([k, fp])),
                            _ => {}
                        }
                    }
                    Ok(json!({"ev": "obs", "scan": full.iter().map(|(k, p)| json!([k, p])).collect::<Vec<_>>(),
                              "lookups": lookups, "err": ""}))
                }));
                let ev = match r {
                    Ok(Ok(v)) => v,
                    Ok(Err(e)) => json!({"ev": "obs", "scan": [], "lookups": [], "err": format!("err:{e}")}),
                    Err(_) => json!({"ev": "obs", "scan": [], "lookups": [], "err": "panic"}),
                };
                writeln!(out, "{}", ev).unwrap();
            }
        }
        drop(pager);
        let _ = std::fs::remove_dir_all(&dir);
    }
    json!({"sequences": seqs.len(), "ops": n_ops, "observations": n_obs})
}
