//! C31 driver: vector insertions (also re-insertions, on deleted nodes, in dropped transactions), searches before and
//! after compaction / reopen.  Logs what `search_vector` returns; distances as exact dyadic rationals.

use crate::storage::open_engine;
use nervusdb_storage::engine::GraphEngine;
use serde_json::{Value as J, json};
use std::io::Write;
use std::panic::{AssertUnwindSafe, catch_unwind};
use std::path::Path;

/// f32 -> [sign, mantissa, exp] with value = sign * mantissa / 2^exp (mantissa < 2^24), or a class name
fn dyadic(f: f32) -> J {
    if f.is_nan() { return json!({"k": "nan", "n": 0, "e": 0}); }
    if f.is_infinite() { return json!({"k": if f > 0.0 { "pinf" } else { "ninf" }, "n": 0, "e": 0}); }
    if f == 0.0 { return json!({"k": "fin", "n": 0, "e": 0}); }
    let bits = f.to_bits();
    let sign: i64 = if bits >> 31 == 1 { -1 } else { 1 };
    let eb = ((bits >> 23) & 0xff) as i64;
    let frac = (bits & 0x7f_ffff) as i64;
    let (mut m, mut e) = if eb == 0 { (frac, -149i64) } else { (frac | (1 << 23), eb - 150) };
    while m & 1 == 0 { m >>= 1; e += 1; }
    if e > 0 {
        if e > 30 { return json!({"k": "huge", "n": 0, "e": 0}); }
        m <<= e; e = 0;
    }
    if -e > 60 { return json!({"k": "tiny", "n": 0, "e": 0}); }
    json!({"k": "fin", "n": sign * m, "e": -e})
}

pub fn run(scenarios: &[J], out: &mut dyn Write, scratch: &Path) -> J {
    let (mut n_search, mut n_steps) = (0u64, 0u64);
    for sc in scenarios {
        let id = sc["id"].as_str().unwrap_or("s");
        let m = sc["m"].as_u64().unwrap_or(16);
        let dir = scratch.join("vectors");
        let _ = std::fs::remove_dir_all(&dir);
        std::fs::create_dir_all(&dir).unwrap();
        // the index parameters are read from the environment when a handle is opened
        unsafe { std::env::set_var("NERVUSDB_HNSW_M", m.to_string()); }
        let mut engine: Option<GraphEngine> = open_engine(&dir).ok();
        writeln!(out, "{}", json!({"ev": "vreset", "id": id, "m": m, "open": if engine.is_some() { "ok" } else { "failed" }})).unwrap();
        let mut next_ext = 1u64;
        for st in sc["steps"].as_array().cloned().unwrap_or_default() {
            n_steps += 1;
            let op = st["op"].as_str().unwrap_or("").to_string();
            let mut ev = json!({"ev": "vstep", "op": op, "st": st});
            let e = engine.as_ref();
            let r = catch_unwind(AssertUnwindSafe(|| -> Result<J, String> {
                match op.as_str() {
                    "nodes" => {
                        let e = e.ok_or("closed")?;
                        let n = st["n"].as_u64().unwrap();
                        let mut tx = e.begin_write();
                        let l = tx.get_or_create_label("V").map_err(|x| x.to_string())?;
                        let mut ids = Vec::new();
                        for k in 0..n { ids.push(tx.create_node(next_ext + k, l).map_err(|x| x.to_string())?); }
                        tx.commit().map_err(|x| x.to_string())?;
                        Ok(json!({"ids": ids}))
                    }
                    "setvec" => {
                        let e = e.ok_or("closed")?;
                        // the model's choice of levels, one per item (absent = drawn at random by the index)
                        if let Some(ls) = st.get("levels").and_then(|x| x.as_array()) {
                            if let Some(o) = crate::obs::GLOBAL.get() {
                                *o.hnsw_levels.lock().unwrap() = Some(ls.iter().map(|x| x.as_u64().unwrap() as u8).collect());
                            }
                        }
                        let mut tx = e.begin_write();
                        for it in st["items"].as_array().unwrap() {
                            let v: Vec<f32> = it[1].as_array().unwrap().iter().map(|x| x.as_f64().unwrap() as f32).collect();
                            tx.set_vector(it[0].as_u64().unwrap() as u32, v).map_err(|x| x.to_string())?;
                        }
                        if st["commit"].as_bool().unwrap_or(true) { tx.commit().map_err(|x| x.to_string())?; } else { drop(tx); }
                        Ok(json!({}))
                    }
                    "delnode" => {
                        let e = e.ok_or("closed")?;
                        let mut tx = e.begin_write();
                        for i in st["ids"].as_array().unwrap() { tx.tombstone_node(i.as_u64().unwrap() as u32); }
                        tx.commit().map_err(|x| x.to_string())?;
                        Ok(json!({}))
                    }
                    "compact" => { e.ok_or("closed")?.compact().map_err(|x| x.to_string())?; Ok(json!({})) }
                    "search" => {
                        let e = e.ok_or("closed")?;
                        let q: Vec<f32> = st["q"].as_array().unwrap().iter().map(|x| x.as_f64().unwrap() as f32).collect();
                        let hits = e.search_vector(&q, st["k"].as_u64().unwrap() as usize).map_err(|x| x.to_string())?;
                        Ok(json!({"hits": hits.iter().map(|(i, d)| json!([i, dyadic(*d)])).collect::<Vec<_>>()}))
                    }
                    "reopen" => Ok(json!({})),
                    _ => Err("unknown".into()),
                }
            }));
            match r {
                Ok(Ok(info)) => { ev["res"] = json!("ok"); ev["info"] = info; }
                Ok(Err(m)) => { ev["res"] = json!(format!("err:{m}")); ev["info"] = json!({"hits": [], "ids": []}); }
                Err(_) => { ev["res"] = json!("panic"); ev["info"] = json!({"hits": [], "ids": []}); }
            }
            if op == "nodes" && ev["res"] == "ok" { next_ext += st["n"].as_u64().unwrap(); }
            if op == "search" { n_search += 1; }
            if op == "reopen" {
                drop(engine.take());
                match open_engine(&dir) { Ok(e2) => engine = Some(e2), Err(m) => ev["res"] = json!(m) }
            }
            writeln!(out, "{}", ev).unwrap();
        }
        drop(engine);
        let _ = std::fs::remove_dir_all(&dir);
    }
    unsafe { std::env::remove_var("NERVUSDB_HNSW_M"); }
    json!({"scenarios": scenarios.len(), "steps": n_steps, "searches": n_search})
}
